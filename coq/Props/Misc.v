(* Props/Misc — float-level and wrapper-level statements that close gaps of C02/C04/C05/C15/C16 (the
   exact-weight idealisation), C10 (the binary64 statistics that run, the wrapper), C09 (Layer B
   MergeWithProto / FromProto) and C16/C17 (statistics bookkeeping).  Statements only; every proof is a
   reference to Sketch/MiscProofs.v.

   Reading aid (plain definitions of Sketch/MiscProofs.v, restated below as checked equations):
     gridv k z         = z / 2^k  as a Qc
     on_grid k q       = exists z : Z, q = z / 2^k
     grid53 k q        = exists z : Z, |z| <= 2^53 /\ q = z / 2^k        (on the grid and |q| 2^k <= 2^53)
     qsum l, qsumabs l = sum of l, sum of the absolute values of l
     su_stats l        = fold of Add(v, c) of the BINARY64 statistics over l, from NewSummaryStatistics()
     first_min vs m    = m is the first element of vs whose value is minimal (first_max: maximal)
     qvals l           = the exact values (f2q v, f2q c) of the pairs of l
     wop, wk_step, wk_run, su_step, add_accepted, accepted_adds    histories of the exact-variant sketch
     st_merge_with_proto(_go), st_to_proto, sk_to_proto, sk_from_proto, pb_idx_ok, mapid_valid
   BR x = B2R 53 1024 x, fin x = (is_finite 53 1024 x = true) (Flocq).  Bounds: 0 <= k <= 1074 is the whole
   range in which 2^-k is a binary64 (gradual underflow included). *)
From Coq Require Import Bool NArith ZArith QArith Qcanon Qcabs List Permutation.
From Flocq Require Import Core.Core IEEE754.BinarySingleNaN IEEE754.Binary IEEE754.Bits.
From SK Require Import Base.Prelude Base.F64 Base.F64Proofs.
From SK Require Import Spec.Bins Spec.BinsProofs Spec.ASketch Store.Any Store.AnyProofs Stat.Summary
                       Sketch.Sketch Sketch.SketchProofs Sketch.RefineProofs Wire.Proto Sketch.MiscProofs.
From SK Require Stat.SummaryProofs Wire.ProtoProofs Store.DenseProofs.
Import ListNotations.
Local Open Scope Z_scope.

(* ---------------- vocabulary ---------------- *)
Example gridv_def k z : gridv k z = Q2Qc (inject_Z z / inject_Z (2 ^ k)) := eq_refl.
Example on_grid_def k q : on_grid k q = (exists z : Z, q = gridv k z) := eq_refl.
Example grid53_def k q : grid53 k q = (exists z : Z, Z.abs z <= 2 ^ 53 /\ q = gridv k z) := eq_refl.
Example qsum_def l : qsum l = fold_right Qcplus w0 l := eq_refl.
Example qsumabs_def l : qsumabs l = fold_right (fun x a => (Qcabs x + a)%Qc) w0 l := eq_refl.
Example su_stats_def l : su_stats l = fold_left (fun s vc => su_add s (fst vc) (snd vc)) l su_new := eq_refl.
Example first_min_def vs m :
  first_min vs m = (exists l1 l2, vs = l1 ++ m :: l2 /\
     (forall x, In x l1 -> (f2q m < f2q x)%Qc) /\ (forall x, In x l2 -> (f2q m <= f2q x)%Qc)) := eq_refl.
Example first_max_def vs m :
  first_max vs m = (exists l1 l2, vs = l1 ++ m :: l2 /\
     (forall x, In x l1 -> (f2q x < f2q m)%Qc) /\ (forall x, In x l2 -> (f2q x <= f2q m)%Qc)) := eq_refl.
Example qvals_def l : qvals l = map (fun vc => (f2q (fst vc), f2q (snd vc))) l := eq_refl.
Example wk_step_def fx mt s x :
  wk_step fx mt s x =
  match x with
  | WAdd v c u => match sk_add fx mt s v c u with ROk s' => Some s' | RErr _ => Some s | RPanic => None end
  | WMerge o => match sk_merge s o with ROk (s', _) => Some s' | RErr _ => Some s | RPanic => None end
  | WReweight w => if fle w f64_zero then Some s else match sk_reweight s w with ROk s' => Some s' | _ => None end
  | WClear => Some (sk_clear s)
  | WCopy => Some (sk_copy s)
  end := eq_refl.
Example wk_run_def fx mt s ops :
  wk_run fx mt s ops =
  fold_left (fun acc x => match acc with Some s' => wk_step fx mt s' x | None => None end) ops (Some s) := eq_refl.
Example add_accepted_def mt v c :
  add_accepted mt v c =
  negb (flt c f64_zero) &&
  (if flt (mt_min mt) v then negb (flt (mt_max mt) v)
   else if flt v (fneg (mt_min mt)) then negb (flt v (fneg (mt_max mt)))
   else negb (f_is_nan v)) := eq_refl.
Example su_step_def mt m t x :
  su_step mt m t x =
  match x with
  | WAdd v c u => if negb u && feq c f64_zero then t else if add_accepted mt v c then su_add t v c else t
  | WMerge o => if map_equals m (sk_map o) then match sk_stats o with Some u => su_merge t u | None => t end else t
  | WReweight w => if fle w f64_zero then t else su_reweight t w
  | WClear => su_new
  | WCopy => t
  end := eq_refl.
Example wop_ok_def m x :
  wop_ok m x = match x with
               | WAdd v c _ => f_is_finite v = true /\ f_is_finite c = true /\ (w0 <= f2q c)%Qc
               | WMerge o => SkInv o /\ map_equals m (sk_map o) = true
               | WReweight w => f_is_finite w = true /\ fle w f64_zero = false
               | _ => True end.
Proof. destruct x; reflexivity. Qed.
Example st_merge_with_proto_def s p : st_merge_with_proto s p = st_add_list s (store_content p) := eq_refl.
Example st_merge_with_proto_go_def s p :
  st_merge_with_proto_go s p =
  st_add_list s (store_content {| bin_counts := pb_map_view (bin_counts p); contiguous_counts := contiguous_counts p;
                                  contiguous_offset := contiguous_offset p |}) := eq_refl.
Example pb_idx_ok_def p :
  pb_idx_ok p = (Forall (fun kv => idx_ok (fst kv)) (bin_counts p) /\
                 (contiguous_counts p = [] \/
                  (idx_ok (contiguous_offset p) /\
                   idx_ok (contiguous_offset p + Z.of_nat (length (contiguous_counts p)) - 1)))) := eq_refl.
Example st_to_proto_def s :
  st_to_proto s = match s with
                  | SD d => option_map pb_of_dense_proto (Dense.to_proto_d d)
                  | _ => option_map (fun sl => to_proto_sparse (snd sl)) (st_foreach s)
                  end := eq_refl.
Example mapid_valid_def m :
  mapid_valid m = ((mk_kind m = 0 \/ mk_kind m = 1 \/ mk_kind m = 3)%N /\ fle (mk_gamma m) f64_one = false) := eq_refl.

(* ================================================================== *)
(* 1. GRID: binary64 arithmetic on grid weights is the exact arithmetic *)
(* ================================================================== *)
(* a bounded grid point is a binary64 value: converting it is exact *)
Theorem GRID_q2f_exact : forall (k : Z) (q : Qc),
  0 <= k <= 1074 -> grid53 k q -> is_finite 53 1024 (q2f q) = true /\ f2q (q2f q) = q.
Proof. exact q2f_grid. Qed.
Print Assumptions GRID_q2f_exact.

Theorem GRID_of_bound : forall (k : Z) (q : Qc),
  0 <= k -> on_grid k q -> (Qcabs q <= gridv k (2 ^ 53))%Qc -> grid53 k q.
Proof. exact grid53_of_bound. Qed.
Print Assumptions GRID_of_bound.

Theorem GRID_closed :
  (forall k x y, 0 <= k -> on_grid k x -> on_grid k y -> on_grid k (x + y)) /\
  (forall k x y, 0 <= k -> on_grid k x -> on_grid k y -> on_grid k (x - y)) /\
  (forall k j x y, 0 <= k -> 0 <= j -> on_grid k x -> on_grid j y -> on_grid (k + j) (x * y)) /\
  (forall k x, 0 <= k -> on_grid k x -> on_grid k (- x)) /\
  (forall k x, 0 <= k -> on_grid k x -> dyadic x).
Proof. exact (conj on_grid_plus (conj on_grid_minus (conj on_grid_mult (conj on_grid_opp on_grid_dyadic)))). Qed.
Print Assumptions GRID_closed.

(* float level (what the Go stores hold): +, -, * of finite floats are exact as soon as the exact
   result is a bounded grid point - no condition on the operands *)
Theorem GRID_fadd_float : forall (k : Z) (a b : f64),
  0 <= k <= 1074 -> is_finite 53 1024 a = true -> is_finite 53 1024 b = true -> grid53 k (f2q a + f2q b) ->
  is_finite 53 1024 (fadd a b) = true /\ f2q (fadd a b) = (f2q a + f2q b)%Qc.
Proof. exact fadd_exact. Qed.
Print Assumptions GRID_fadd_float.

Theorem GRID_fsub_float : forall (k : Z) (a b : f64),
  0 <= k <= 1074 -> is_finite 53 1024 a = true -> is_finite 53 1024 b = true -> grid53 k (f2q a - f2q b) ->
  is_finite 53 1024 (fsub a b) = true /\ f2q (fsub a b) = (f2q a - f2q b)%Qc.
Proof. exact fsub_exact. Qed.
Print Assumptions GRID_fsub_float.

Theorem GRID_fmul_float : forall (k : Z) (a b : f64),
  0 <= k <= 1074 -> is_finite 53 1024 a = true -> is_finite 53 1024 b = true -> grid53 k (f2q a * f2q b) ->
  is_finite 53 1024 (fmul a b) = true /\ f2q (fmul a b) = (f2q a * f2q b)%Qc.
Proof. exact fmul_exact. Qed.
Print Assumptions GRID_fmul_float.

(* weight level: the model's Qc weights through q2f.  The operands must themselves be bounded grid
   points (GRID_ex_operands_needed: the bound on x + y alone is not enough) *)
Theorem GRID_fadd_exact : forall (k : Z) (x y : Qc),
  0 <= k <= 1074 -> grid53 k x -> grid53 k y -> grid53 k (x + y) -> f2q (fadd (q2f x) (q2f y)) = (x + y)%Qc.
Proof. exact grid_fadd. Qed.
Print Assumptions GRID_fadd_exact.

Theorem GRID_fsub_exact : forall (k : Z) (x y : Qc),
  0 <= k <= 1074 -> grid53 k x -> grid53 k y -> grid53 k (x - y) -> f2q (fsub (q2f x) (q2f y)) = (x - y)%Qc.
Proof. exact grid_fsub. Qed.
Print Assumptions GRID_fsub_exact.

Theorem GRID_fmul_exact : forall (k j : Z) (x w : Qc),
  0 <= k -> 0 <= j -> k + j <= 1074 -> grid53 k x -> grid53 j w ->
  (Qcabs (x * w) <= gridv (k + j) (2 ^ 53))%Qc -> f2q (fmul (q2f x) (q2f w)) = (x * w)%Qc.
Proof. exact grid_fmul. Qed.
Print Assumptions GRID_fmul_exact.

(* non-negative weights (every weight of a store): the bound on the sum suffices *)
Theorem GRID_fadd_nonneg : forall (k : Z) (x y : Qc),
  0 <= k <= 1074 -> on_grid k x -> on_grid k y -> (w0 <= x)%Qc -> (w0 <= y)%Qc ->
  (x + y <= gridv k (2 ^ 53))%Qc -> f2q (fadd (q2f x) (q2f y)) = (x + y)%Qc.
Proof. exact grid_fadd_nonneg. Qed.
Print Assumptions GRID_fadd_nonneg.

(* sums: finite floats with values on the grid 2^-k and absolute total <= 2^53 / 2^k, accumulated by
   a left fold of float additions from +0 in ANY order: every partial sum is exact *)
Theorem GRID_fold_float : forall (k : Z) (cs cs' : list f64),
  0 <= k <= 1074 ->
  Forall (fun c => is_finite 53 1024 c = true /\ on_grid k (f2q c)) cs ->
  (qsumabs (map f2q cs) <= gridv k (2 ^ 53))%Qc -> Permutation cs cs' ->
  is_finite 53 1024 (fold_left fadd cs' f64_zero) = true /\
  f2q (fold_left fadd cs' f64_zero) = qsum (map f2q cs).
Proof. exact fadd_fold_exact. Qed.
Print Assumptions GRID_fold_float.

Theorem GRID_fold_exact : forall (k : Z) (ws ws' : list Qc),
  0 <= k <= 1074 -> Forall (on_grid k) ws -> (qsumabs ws <= gridv k (2 ^ 53))%Qc -> Permutation ws ws' ->
  f2q (fold_left fadd (map q2f ws') f64_zero) = qsum ws.
Proof. exact grid_fold_exact. Qed.
Print Assumptions GRID_fold_exact.

(* ================================================================== *)
(* 2. C10: min, max, count of the binary64 statistics                   *)
(* ================================================================== *)
(* the generic text of Stat/Summary.v, for BOTH instances at once (binary64: su_add ..., exact: xs_add ...) *)
Theorem C10_f_generic_fields : forall (F : Type) (add sub mul : F -> F -> F) (lt : F -> F -> bool)
  (l : list (F * F)) (s : gsummary F),
  g_count (g_stats F add sub mul lt l s) = fold_left add (map snd l) (g_count s) /\
  g_min (g_stats F add sub mul lt l s) = fold_left (fun m v => if lt v m then v else m) (map fst l) (g_min s) /\
  g_max (g_stats F add sub mul lt l s) = fold_left (fun m v => if lt m v then v else m) (map fst l) (g_max s).
Proof. exact g_stats_fields. Qed.
Print Assumptions C10_f_generic_fields.

(* finite values, ARBITRARY counts (NaN and infinities included): min and max are inputs, bit for bit,
   namely the first minimal and the first maximal value.  On -0 / +0: Go's < does not separate them,
   so of several zeros of either sign that are extremal, the one added first is reported *)
Theorem C10_f_minmax_exact : forall l : list (f64 * f64),
  Forall (fun vc => is_finite 53 1024 (fst vc) = true) l ->
  match l with
  | [] => su_min (su_stats l) = f64_pinf /\ su_max (su_stats l) = f64_ninf
  | _ :: _ => first_min (map fst l) (su_min (su_stats l)) /\ first_max (map fst l) (su_max (su_stats l))
  end.
Proof. exact su_minmax_exact. Qed.
Print Assumptions C10_f_minmax_exact.

Theorem C10_f_first_min_is_min : forall (vs : list f64) (m : f64),
  first_min vs m -> In m vs /\ forall x, In x vs -> (f2q m <= f2q x)%Qc.
Proof. exact first_min_in. Qed.
Print Assumptions C10_f_first_min_is_min.
Theorem C10_f_first_max_is_max : forall (vs : list f64) (m : f64),
  first_max vs m -> In m vs /\ forall x, In x vs -> (f2q x <= f2q m)%Qc.
Proof. exact first_max_in. Qed.
Print Assumptions C10_f_first_max_is_max.

(* ... and they are the min / max fields of the EXACT instance of Props/C10.v on the exact values *)
Theorem C10_f_minmax_is_exact_instance : forall l : list (f64 * f64),
  Forall (fun vc => is_finite 53 1024 (fst vc) = true) l ->
  f2v (su_min (su_stats l)) = g_min (SummaryProofs.stats_of (qvals l)) /\
  f2v (su_max (su_stats l)) = g_max (SummaryProofs.stats_of (qvals l)).
Proof. exact su_minmax_is_exact_instance. Qed.
Print Assumptions C10_f_minmax_is_exact_instance.

(* merging: min of mins and max of maxes, bit for bit the fields of the concatenated history *)
Theorem C10_f_merge_minmax : forall l1 l2 : list (f64 * f64),
  Forall (fun vc => is_finite 53 1024 (fst vc) = true) l1 ->
  Forall (fun vc => is_finite 53 1024 (fst vc) = true) l2 ->
  su_min (su_merge (su_stats l1) (su_stats l2)) = su_min (su_stats (l1 ++ l2)) /\
  su_max (su_merge (su_stats l1) (su_stats l2)) = su_max (su_stats (l1 ++ l2)).
Proof. exact su_merge_minmax. Qed.
Print Assumptions C10_f_merge_minmax.

Theorem C10_f_merge_fields : forall s o : summary,
  su_count (su_merge s o) = fadd (su_count s) (su_count o) /\
  su_min (su_merge s o) = (if flt (su_min o) (su_min s) then su_min o else su_min s) /\
  su_max (su_merge s o) = (if flt (su_max s) (su_max o) then su_max o else su_max s).
Proof. exact su_merge_fields. Qed.
Print Assumptions C10_f_merge_fields.

(* count: counts on the grid 2^-k with absolute total <= 2^53 / 2^k; whatever the order l' in which
   the additions are made, the float count is the exact total weight = the count of the exact instance *)
Theorem C10_f_count_exact : forall (k : Z) (l l' : list (f64 * f64)),
  0 <= k <= 1074 ->
  Forall (fun vc => is_finite 53 1024 (snd vc) = true /\ on_grid k (f2q (snd vc))) l ->
  (qsumabs (map f2q (map snd l)) <= gridv k (2 ^ 53))%Qc -> Permutation l l' ->
  is_finite 53 1024 (su_count (su_stats l')) = true /\
  f2q (su_count (su_stats l')) = qsum (map f2q (map snd l)) /\
  f2v (su_count (su_stats l')) = g_count (SummaryProofs.stats_of (qvals l)).
Proof. exact su_count_exact. Qed.
Print Assumptions C10_f_count_exact.

Theorem C10_f_merge_count_exact : forall (k : Z) (s o : summary),
  0 <= k <= 1074 -> is_finite 53 1024 (su_count s) = true -> is_finite 53 1024 (su_count o) = true ->
  grid53 k (f2q (su_count s) + f2q (su_count o)) ->
  is_finite 53 1024 (su_count (su_merge s o)) = true /\
  f2q (su_count (su_merge s o)) = (f2q (su_count s) + f2q (su_count o))%Qc.
Proof. exact su_merge_count_exact. Qed.
Print Assumptions C10_f_merge_count_exact.

(* ================================================================== *)
(* 3. C10: the statistics field of the exact-variant sketch             *)
(* ================================================================== *)
(* one forwarded operation, NO invariant, repaired or unrepaired weight-0 shortcut: the field is
   updated as su_step says and the mapping identity is kept.  In particular a refused Add / MergeWith /
   Reweight leaves it as it was, and Add(v, 0) never reaches the statistics *)
Theorem C10_f_wrapper_step : forall (fx : fixes) (mt : mtable) (s s' : sketch) (t : summary) (x : wop),
  wk_step fx mt s x = Some s' -> sk_stats s = Some t ->
  sk_stats s' = Some (su_step mt (sk_map s) t x) /\ sk_map s' = sk_map s.
Proof. exact wk_step_stats. Qed.
Print Assumptions C10_f_wrapper_step.

Theorem C10_f_wrapper_history : forall (fx : fixes) (mt : mtable) (ops : list wop) (s s' : sketch) (t : summary),
  wk_run fx mt s ops = Some s' -> sk_stats s = Some t ->
  sk_stats s' = Some (fold_left (su_step mt (sk_map s)) ops t) /\ sk_map s' = sk_map s.
Proof. exact wk_stats_history. Qed.
Print Assumptions C10_f_wrapper_history.

Theorem C10_f_wrapper_rejected_add : forall (fx : fixes) (mt : mtable) (s : sketch) (v c : f64) (u : bool) (e : err),
  sk_add fx mt s v c u = RErr e -> wk_step fx mt s (WAdd v c u) = Some s.
Proof. exact wk_rejected_add. Qed.
Print Assumptions C10_f_wrapper_rejected_add.

(* from a new sketch with exact statistics, any store kinds: never a panic, the bins are the Layer A
   history of the plain sketch, the statistics are the su-fold of the forwarded operations *)
Theorem C10_f_wrapper_history_total : forall (fx : fixes) (mt : mtable) (m : mapid) (kp kn : kind) (ops : list wop),
  fD7 fx = true -> mt_ok mt -> kind_ok kp -> kind_ok kn -> Forall (wop_ok m) ops ->
  exists s, wk_run fx mt (sk_new m kp kn true) ops = Some s /\ SkInv s /\ sk_map s = m /\
            sk_abs s = a_run (am_of mt) (kind_limit kp) (kind_limit kn) a_new (map kop_of ops) /\
            sk_stats s = Some (fold_left (su_step mt m) ops su_new).
Proof. exact wk_history. Qed.
Print Assumptions C10_f_wrapper_history_total.

(* add-only histories: the su-fold is su_stats of the accepted additions, so section 2 applies *)
Theorem C10_f_wrapper_adds : forall (mt : mtable) (m : mapid) (ops : list wop),
  adds_only ops -> forall t : summary,
  fold_left (su_step mt m) ops t = su_stats_from (accepted_adds mt ops) t.
Proof. exact su_step_adds. Qed.
Print Assumptions C10_f_wrapper_adds.

(* ================================================================== *)
(* 4. C09: Layer B MergeWithProto, ToProto, FromProto                   *)
(* ================================================================== *)
(* a receiver of ANY of the five kinds: no panic, invariant and kind kept, and the content is the
   receiver's normal form of Layer A merge_with_proto (Wire/Proto.v; the identity for the three
   non-collapsing kinds) *)
Theorem C09_b_from_proto_refines : forall (s : store) (p : pb_store),
  StInv s -> pb_idx_ok p -> ProtoProofs.pb_nonneg p ->
  exists s', st_merge_with_proto s p = Some s' /\ StInv s' /\ st_kind s' = st_kind s /\
             st_abs s' = norm (st_limit s) (merge_with_proto (st_abs s) p).
Proof. exact st_from_proto_msg. Qed.
Print Assumptions C09_b_from_proto_refines.

Theorem C09_b_from_proto_refines_go : forall (s : store) (p : pb_store),
  StInv s -> pb_idx_ok p -> ProtoProofs.pb_nonneg p ->
  exists s', st_merge_with_proto_go s p = Some s' /\ StInv s' /\ st_kind s' = st_kind s /\
             st_abs s' = norm (st_limit s) (merge_with_proto_go (st_abs s) p).
Proof. exact st_from_proto_go. Qed.
Print Assumptions C09_b_from_proto_refines_go.

(* ToProto of the five kinds: contiguous for the dense family (collapsing included), one entry per bin
   otherwise; never a panic *)
Theorem C09_b_to_proto : forall s : store,
  StInv s ->
  st_to_proto s = Some (match s with SD _ => to_proto_dense (st_abs s) | _ => to_proto_sparse (st_abs s) end).
Proof. exact st_to_proto_spec. Qed.
Print Assumptions C09_b_to_proto.

(* any kind -> message -> any kind (25 pairs), into any receiver *)
Theorem C09_b_store_roundtrip : forall s r : store,
  StInv s -> StInv r -> ProtoProofs.f64_weights (st_abs s) ->
  exists p r', st_to_proto s = Some p /\ st_merge_with_proto_go r p = Some r' /\ StInv r' /\
               st_kind r' = st_kind r /\ st_abs r' = norm (st_limit r) (bmerge (st_abs r) (st_abs s)).
Proof. exact st_proto_roundtrip. Qed.
Print Assumptions C09_b_store_roundtrip.

Theorem C09_b_mapping_roundtrip : forall m : mapid, mapid_of_pb (pb_of_mapid m) = m.
Proof. exact mapid_roundtrip. Qed.
Print Assumptions C09_b_mapping_roundtrip.

(* the sketch: same mapping identity (bit for bit), zero weight, bins (in the new stores' normal form) *)
Theorem C09_b_sketch_roundtrip : forall (s : sketch) (kp kn : kind),
  SkInv s -> kind_ok kp -> kind_ok kn -> mapid_valid (sk_map s) ->
  ProtoProofs.f64_weights (st_abs (sk_pos s)) -> ProtoProofs.f64_weights (st_abs (sk_neg s)) ->
  rnd64 (sk_zero s) = sk_zero s ->
  exists msg s', sk_to_proto s = Some msg /\ sk_from_proto kp kn msg = ROk s' /\
    SkInv s' /\ sk_map s' = sk_map s /\ sk_zero s' = sk_zero s /\ sk_stats s' = None /\
    st_kind (sk_pos s') = kp /\ st_kind (sk_neg s') = kn /\
    st_abs (sk_pos s') = norm (kind_limit kp) (st_abs (sk_pos s)) /\
    st_abs (sk_neg s') = norm (kind_limit kn) (st_abs (sk_neg s)).
Proof. exact sk_proto_roundtrip. Qed.
Print Assumptions C09_b_sketch_roundtrip.

Theorem C09_b_sketch_roundtrip_exact : forall (s : sketch) (kp kn : kind),
  SkInv s -> kind_limit kp = Exact -> kind_limit kn = Exact -> kind_ok kp -> kind_ok kn -> mapid_valid (sk_map s) ->
  ProtoProofs.f64_weights (st_abs (sk_pos s)) -> ProtoProofs.f64_weights (st_abs (sk_neg s)) ->
  rnd64 (sk_zero s) = sk_zero s ->
  exists msg s', sk_to_proto s = Some msg /\ sk_from_proto kp kn msg = ROk s' /\
    SkInv s' /\ sk_map s' = sk_map s /\ sk_abs s' = sk_abs s.
Proof. exact sk_proto_roundtrip_exact. Qed.
Print Assumptions C09_b_sketch_roundtrip_exact.

(* ================================================================== *)
(* 5. C16 / C17: the statistics under Reweight and Rescale              *)
(* ================================================================== *)
Theorem C16_f_reweight_stats : forall (t : summary) (w : f64),
  is_finite 53 1024 w = true -> (w0 < f2q w)%Qc ->
  su_min (su_reweight t w) = su_min t /\ su_max (su_reweight t w) = su_max t /\
  (forall k, 0 <= k <= 1074 -> is_finite 53 1024 (su_count t) = true -> grid53 k (f2q (su_count t) * f2q w) ->
     is_finite 53 1024 (su_count (su_reweight t w)) = true /\
     f2q (su_count (su_reweight t w)) = (f2q (su_count t) * f2q w)%Qc) /\
  (forall k, 0 <= k <= 1074 -> is_finite 53 1024 (su_sum t) = true -> grid53 k (f2q (su_sum t) * f2q w) ->
     is_finite 53 1024 (su_sum (su_reweight t w)) = true /\
     f2q (su_sum (su_reweight t w)) = (f2q (su_sum t) * f2q w)%Qc).
Proof. exact su_reweight_exact. Qed.
Print Assumptions C16_f_reweight_stats.

(* the wrapper forwards an accepted Reweight to the statistics *)
Theorem C16_f_reweight_forwarded : forall (s s' : sketch) (t : summary) (w : f64),
  sk_reweight s w = ROk s' -> sk_stats s = Some t -> sk_stats s' = Some (su_reweight t w).
Proof. exact sk_reweight_stats. Qed.
Print Assumptions C16_f_reweight_forwarded.

Theorem C17_f_rescale_stats : forall (t : summary) (f : f64),
  is_finite 53 1024 f = true -> (w0 < f2q f)%Qc ->
  su_count (su_rescale t f) = su_count t /\
  (forall k, 0 <= k <= 1074 -> is_finite 53 1024 (su_sum t) = true -> grid53 k (f2q (su_sum t) * f2q f) ->
     is_finite 53 1024 (su_sum (su_rescale t f)) = true /\
     f2q (su_sum (su_rescale t f)) = (f2q (su_sum t) * f2q f)%Qc) /\
  (forall k, 0 <= k <= 1074 -> is_finite 53 1024 (su_min t) = true -> grid53 k (f2q (su_min t) * f2q f) ->
     is_finite 53 1024 (su_min (su_rescale t f)) = true /\
     f2q (su_min (su_rescale t f)) = (f2q (su_min t) * f2q f)%Qc) /\
  (forall k, 0 <= k <= 1074 -> is_finite 53 1024 (su_max t) = true -> grid53 k (f2q (su_max t) * f2q f) ->
     is_finite 53 1024 (su_max (su_rescale t f)) = true /\
     f2q (su_max (su_rescale t f)) = (f2q (su_max t) * f2q f)%Qc) /\
  (su_min t = f64_pinf -> su_min (su_rescale t f) = f64_pinf) /\
  (su_max t = f64_ninf -> su_max (su_rescale t f) = f64_ninf).
Proof. exact su_rescale_exact. Qed.
Print Assumptions C17_f_rescale_stats.

(* ================================================================== *)
(* Examples: every hypothesis above is satisfiable by a non-trivial state (vm_compute on the executable model) *)
(* ================================================================== *)
Definition mq (n : Z) (d : positive) : Qc := Q2Qc (n # d).
Ltac qc_compute := apply Qc_is_canon; vm_compute; reflexivity.
Ltac grid_by z := exists z; split; [vm_compute; discriminate|qc_compute].

(* ---- GRID ---- *)
Example GRID_ex_add :
  grid53 3 (mq 5 8) /\ grid53 3 (mq 3 8) /\ grid53 3 (mq 5 8 + mq 3 8) /\
  f2q (fadd (q2f (mq 5 8)) (q2f (mq 3 8))) = mq 1 1.
Proof. split; [grid_by 5|]. split; [grid_by 3|]. split; [grid_by 8|qc_compute]. Qed.

(* the bound is reached: (2^53 - 1) + 1 is exact; one more unit is not *)
Example GRID_ex_boundary :
  grid53 0 (gridv 0 (2 ^ 53 - 1) + gridv 0 1) /\
  f2q (fadd (q2f (gridv 0 (2 ^ 53 - 1))) (q2f (gridv 0 1))) = gridv 0 (2 ^ 53) /\
  f2q (fadd (q2f (gridv 0 (2 ^ 53))) (q2f (gridv 0 1))) = gridv 0 (2 ^ 53).
Proof. split; [grid_by (2 ^ 53)|]. split; qc_compute. Qed.

(* why the operands must be bounded too: x, y, x + y on the grid 2^0 and |x + y| = 1, yet x = 2^53 + 1
   is not a binary64 and the float sum is 0 *)
Example GRID_ex_operands_needed :
  let x := gridv 0 (2 ^ 53 + 1) in let y := gridv 0 (- 2 ^ 53) in
  on_grid 0 x /\ on_grid 0 y /\ grid53 0 (x + y) /\ (x + y)%Qc = mq 1 1 /\ f2q (fadd (q2f x) (q2f y)) = w0.
Proof.
  cbv zeta. split; [eexists; reflexivity|]. split; [eexists; reflexivity|]. split; [grid_by 1|]. split; qc_compute.
Qed.

Example GRID_ex_mul :
  grid53 2 (mq 3 4) /\ grid53 1 (mq 5 2) /\ (Qcabs (mq 3 4 * mq 5 2) <= gridv (2 + 1) (2 ^ 53))%Qc /\
  f2q (fmul (q2f (mq 3 4)) (q2f (mq 5 2))) = mq 15 8.
Proof.
  split; [grid_by 3|]. split; [grid_by 5|]. split; [apply wleb_le; vm_compute; reflexivity|qc_compute].
Qed.

Example GRID_ex_sub :
  grid53 2 (mq 3 4) /\ grid53 2 (mq 5 2) /\ grid53 2 (mq 3 4 - mq 5 2) /\
  f2q (fsub (q2f (mq 3 4)) (q2f (mq 5 2))) = mq (-7) 4.
Proof. split; [grid_by 3|]. split; [grid_by 10|]. split; [grid_by (-7)|qc_compute]. Qed.

(* a sum in three different orders *)
Definition gx_ws : list Qc := [mq 1 2; mq 1 4; mq 3 4; mq 5 1].
Example GRID_ex_fold :
  Forall (on_grid 2) gx_ws /\ (qsumabs gx_ws <= gridv 2 (2 ^ 53))%Qc /\ qsum gx_ws = mq 13 2 /\
  f2q (fold_left fadd (map q2f gx_ws) f64_zero) = mq 13 2 /\
  f2q (fold_left fadd (map q2f (rev gx_ws)) f64_zero) = mq 13 2 /\
  f2q (fold_left fadd (map q2f [mq 3 4; mq 5 1; mq 1 2; mq 1 4]) f64_zero) = mq 13 2.
Proof.
  split.
  { repeat constructor; [exists 2|exists 1|exists 3|exists 20]; qc_compute. }
  split; [apply wleb_le; vm_compute; reflexivity|]. repeat split; qc_compute.
Qed.

(* ---- C10: the binary64 statistics ---- *)
Definition c_m0 := mx_f 9223372036854775808.        (* -0 *)
Definition c_2p5 := mx_f 4612811918334230528.       (* 2.5 *)
Definition c_2 := mx_f 4611686018427387904.         (* 2 *)
Definition c_half := mx_f 4602678819172646912.      (* 0.5 *)
Definition c_7 := mx_f 4619567317775286272.         (* 7 *)
Definition c_100 := mx_f 4636737291354636288.       (* 100 *)
Definition c_m3 := mx_f 13837309855095848960.       (* -3 *)
Definition c_2048 := mx_f 4656722014701092864.      (* 2048: above the indexable range of mx_mt *)
Definition c_nan := mx_f 9221120237041090560.       (* a NaN *)

(* finite values, one count a NaN: min = -3 and max = 2.5, bit for bit *)
Definition cx_l : list (f64 * f64) := [(c_m0, f64_one); (f64_zero, c_nan); (c_2p5, c_2); (c_m3, c_half)].
Example C10_ex_minmax :
  Forall (fun vc => is_finite 53 1024 (fst vc) = true) cx_l /\ f_is_nan c_nan = true /\
  map bits_of_f64 [su_min (su_stats cx_l); su_max (su_stats cx_l)] = map bits_of_f64 [c_m3; c_2p5].
Proof. split; [repeat constructor|]. split; vm_compute; reflexivity. Qed.

(* -0 and +0: the zero added first is the one reported, as minimum and as maximum *)
Example C10_ex_zero_sign :
  map bits_of_f64 [su_min (su_stats [(c_m0, f64_one); (f64_zero, f64_one)]);
                   su_max (su_stats [(c_m0, f64_one); (f64_zero, f64_one)]);
                   su_min (su_stats [(f64_zero, f64_one); (c_m0, f64_one)]);
                   su_max (su_stats [(f64_zero, f64_one); (c_m0, f64_one)])]
  = [9223372036854775808; 9223372036854775808; 0; 0]%N.
Proof. vm_compute. reflexivity. Qed.

Definition cx_c : list (f64 * f64) := [(c_2p5, f64_one); (c_m3, c_2); (c_7, c_half)].
Example C10_ex_count :
  Forall (fun vc => is_finite 53 1024 (snd vc) = true /\ on_grid 1 (f2q (snd vc))) cx_c /\
  (qsumabs (map f2q (map snd cx_c)) <= gridv 1 (2 ^ 53))%Qc /\
  f2q (su_count (su_stats cx_c)) = mq 7 2 /\ f2q (su_count (su_stats (rev cx_c))) = mq 7 2.
Proof.
  split.
  { repeat constructor; [exists 2|exists 4|exists 1]; qc_compute. }
  split; [apply wleb_le; vm_compute; reflexivity|]. split; qc_compute.
Qed.

(* ---- C10: the wrapper.  A history with an accepted, a refused (too high) and a weight-0 addition, a
   negative value, the zero bucket, a merge with another exact-variant sketch, a reweight, a copy and
   Add(v); then Clear and more ---- *)
Definition mx_map : mapid := {| mk_kind := 0%N; mk_gamma := c_2; mk_off := f64_zero |}.
Definition wx_get (o : option sketch) : sketch := match o with Some s => s | None => sk_new mx_map KSparse KSparse true end.
Definition wx_arg_ops : list wop := [WAdd c_7 f64_one false; WAdd c_100 f64_one true].
Definition wx_arg : sketch := wx_get (wk_run fx_all mx_mt (sk_new mx_map KPag KDense true) wx_arg_ops).
Definition wx_ops : list wop :=
  [WAdd c_2p5 f64_one false; WAdd c_2048 f64_one false; WAdd c_7 f64_zero false; WAdd c_m3 c_2 false;
   WAdd f64_zero c_half false; WMerge wx_arg; WReweight c_2p5; WCopy; WAdd c_2 f64_one true].
Definition wx_ops2 : list wop := wx_ops ++ [WClear; WAdd c_7 c_2 false; WMerge wx_arg].
Definition wx_show (o : option summary) : option (Q * Q * Q * Q) :=
  option_map (fun t => (this (f2q (su_count t)), this (f2q (su_sum t)), this (f2q (su_min t)), this (f2q (su_max t)))) o.

(* by computation, two pairs of store kinds and both settings of the weight-0 repair: count 59/4,
   sum 1043/4, min -3, max 100; and it is the su-fold *)
Example C10_ex_wrapper_run :
  wx_show (sk_stats (wx_get (wk_run fx_all mx_mt (sk_new mx_map KDense KSparse true) wx_ops)))
    = Some (59 # 4, 1043 # 4, -3 # 1, 100 # 1)%Q /\
  wx_show (sk_stats (wx_get (wk_run fx_noD7 mx_mt (sk_new mx_map (KLow 2) (KHigh 2) true) wx_ops)))
    = Some (59 # 4, 1043 # 4, -3 # 1, 100 # 1)%Q /\
  wx_show (Some (fold_left (su_step mx_mt mx_map) wx_ops su_new)) = Some (59 # 4, 1043 # 4, -3 # 1, 100 # 1)%Q /\
  wx_show (sk_stats (wx_get (wk_run fx_all mx_mt (sk_new mx_map KPag KPag true) wx_ops2)))
    = Some (4 # 1, 121 # 1, 7 # 1, 100 # 1)%Q.
Proof. vm_compute. repeat split; reflexivity. Qed.

(* ... and through the theorems *)
Lemma wx_arg_ops_ok : Forall (wop_ok mx_map) wx_arg_ops.
Proof. repeat constructor; try (vm_compute; reflexivity); apply wleb_le; vm_compute; reflexivity. Qed.
Lemma wx_arg_inv : SkInv wx_arg /\ sk_map wx_arg = mx_map.
Proof.
  destruct (C10_f_wrapper_history_total fx_all mx_mt mx_map KPag KDense wx_arg_ops eq_refl mx_mt_ok I I wx_arg_ops_ok)
    as (s & E & Is & M & _).
  unfold wx_arg. rewrite E. cbn [wx_get]. auto.
Qed.
Lemma wx_ops_ok : Forall (wop_ok mx_map) wx_ops2.
Proof.
  destruct wx_arg_inv as [Ia Ma].
  assert (Hm : SkInv wx_arg /\ map_equals mx_map (sk_map wx_arg) = true).
  { split; [exact Ia|]. rewrite Ma. vm_compute. reflexivity. }
  unfold wx_ops2, wx_ops. cbn [app].
  repeat (constructor; [first [exact I | exact Hm
                              | split; [vm_compute; reflexivity|]; first [vm_compute; reflexivity
                                  | split; [vm_compute; reflexivity|apply wleb_le; vm_compute; reflexivity]]]|]).
  constructor.
Qed.
Example C10_ex_wrapper_by_theorem :
  forall kp kn, kind_ok kp -> kind_ok kn ->
  exists s, wk_run fx_all mx_mt (sk_new mx_map kp kn true) wx_ops2 = Some s /\ SkInv s /\
            sk_abs s = a_run (am_of mx_mt) (kind_limit kp) (kind_limit kn) a_new (map kop_of wx_ops2) /\
            sk_stats s = Some (fold_left (su_step mx_mt mx_map) wx_ops2 su_new).
Proof.
  intros kp kn Hp Hn.
  destruct (C10_f_wrapper_history_total fx_all mx_mt mx_map kp kn wx_ops2 eq_refl mx_mt_ok Hp Hn wx_ops_ok)
    as (s & E & Is & _ & A & T).
  exists s. auto.
Qed.
Print Assumptions C10_ex_wrapper_by_theorem.

(* ---- C09: the sketch reached by wx_ops (dense positive store, sparse negative store), through its
   message, into stores of every kind ---- *)
Definition px_s : sketch := wx_get (wk_run fx_all mx_mt (sk_new mx_map KDense KSparse true) wx_ops).
Definition px_abs (r : result sketch) : option (list (Z * Q) * list (Z * Q) * Q) :=
  match r with
  | ROk s => Some (map (fun kw => (fst kw, this (snd kw))) (st_abs (sk_pos s)),
                   map (fun kw => (fst kw, this (snd kw))) (st_abs (sk_neg s)), this (sk_zero s))
  | _ => None
  end.
Definition px_rt (kp kn : kind) : option (list (Z * Q) * list (Z * Q) * Q) :=
  match sk_to_proto px_s with Some msg => px_abs (sk_from_proto kp kn msg) | None => None end.
Example C09_ex_roundtrip_run :
  px_abs (ROk px_s) = Some ([(2, Qmake 7 2); (7, Qmake 5 2); (100, Qmake 5 2)], [(3, Qmake 5 1)], Qmake 5 4) /\
  forallb (fun kk => match px_rt (fst kk) (snd kk), px_abs (ROk px_s) with
                     | Some (p, n, z), Some (p0, n0, z0) =>
                       Nat.eqb (length p) (length p0) && Nat.eqb (length n) (length n0) && Qeq_bool z z0
                     | _, _ => false end)
          [(KDense, KSparse); (KSparse, KPag); (KPag, KDense); (KLow 200, KHigh 200)] = true /\
  px_rt KPag KSparse = px_abs (ROk px_s) /\
  (* a collapsing receiver of capacity 2 folds the lowest bins into index 99 *)
  px_rt (KLow 2) KDense = Some ([(99, Qmake 6 1); (100, Qmake 5 2)], [(3, Qmake 5 1)], Qmake 5 4).
Proof. vm_compute. repeat split; reflexivity. Qed.

Lemma px_inv : SkInv px_s /\ sk_map px_s = mx_map.
Proof.
  assert (Hops : Forall (wop_ok mx_map) wx_ops).
  { pose proof wx_ops_ok as H. unfold wx_ops2 in H. apply Forall_app in H. exact (proj1 H). }
  destruct (C10_f_wrapper_history_total fx_all mx_mt mx_map KDense KSparse wx_ops eq_refl mx_mt_ok I I Hops)
    as (s & E & Is & M & _).
  unfold px_s. rewrite E. cbn [wx_get]. auto.
Qed.
Example C09_ex_roundtrip_by_theorem :
  forall kp kn, kind_ok kp -> kind_ok kn ->
  exists msg s', sk_to_proto px_s = Some msg /\ sk_from_proto kp kn msg = ROk s' /\ SkInv s' /\
    sk_map s' = mx_map /\ sk_zero s' = sk_zero px_s /\
    st_abs (sk_pos s') = norm (kind_limit kp) (st_abs (sk_pos px_s)) /\
    st_abs (sk_neg s') = norm (kind_limit kn) (st_abs (sk_neg px_s)).
Proof.
  intros kp kn Hp Hn. destruct px_inv as [Is Ms].
  destruct (C09_b_sketch_roundtrip px_s kp kn Is Hp Hn) as (msg & s' & E1 & E2 & I' & M' & Z' & _ & _ & _ & Ap & An).
  - rewrite Ms. split; [left; reflexivity|vm_compute; reflexivity].
  - apply f64_weights_of_exactb. vm_compute. reflexivity.
  - apply f64_weights_of_exactb. vm_compute. reflexivity.
  - qc_compute.
  - exists msg, s'. rewrite M', Ms. auto 10.
Qed.
Print Assumptions C09_ex_roundtrip_by_theorem.

(* a hand-built message mixing map entries (one key twice) and contiguous counts: into a collapsing store
   of capacity 3 (indexes above 1 fold into 1), and as Go sees it (last duplicate wins) into a paginated store *)
Definition px_msg : pb_store :=
  {| bin_counts := [(5, c_2); (-1, c_half); (5, c_7)]; contiguous_counts := [f64_one; f64_zero; c_2p5]; contiguous_offset := 4 |}.
Example C09_ex_mixed_message :
  pb_idx_ok px_msg /\ ProtoProofs.pb_nonneg px_msg /\
  option_map (fun s => map (fun kw => (fst kw, this (snd kw))) (st_abs s)) (st_merge_with_proto (st_new (KHigh 3)) px_msg)
    = Some [(-1, Qmake 1 2); (1, Qmake 25 2)] /\
  option_map (fun s => map (fun kw => (fst kw, this (snd kw))) (st_abs s)) (st_merge_with_proto_go (st_new KPag) px_msg)
    = Some [(-1, Qmake 1 2); (4, Qmake 1 1); (5, Qmake 7 1); (6, Qmake 5 2)].
Proof.
  split.
  { split; [repeat (apply Forall_cons; [vm_compute; split; discriminate|]); apply Forall_nil|].
    right. split; vm_compute; split; discriminate. }
  split.
  { unfold ProtoProofs.pb_nonneg, nonneg.
    repeat (apply Forall_cons; [apply wleb_le; vm_compute; reflexivity|]). apply Forall_nil. }
  vm_compute. split; reflexivity.
Qed.

(* ---- C16 / C17 ---- *)
Definition rx_t : summary := su_stats [(c_2p5, f64_one); (c_m3, c_2)].
Example C16_ex_reweight :
  is_finite 53 1024 c_2p5 = true /\ (w0 < f2q c_2p5)%Qc /\
  is_finite 53 1024 (su_count rx_t) = true /\ grid53 1 (f2q (su_count rx_t) * f2q c_2p5) /\
  is_finite 53 1024 (su_sum rx_t) = true /\ grid53 2 (f2q (su_sum rx_t) * f2q c_2p5) /\
  wx_show (Some rx_t) = Some (3 # 1, -7 # 2, -3 # 1, 5 # 2)%Q /\
  wx_show (Some (su_reweight rx_t c_2p5)) = Some (15 # 2, -35 # 4, -3 # 1, 5 # 2)%Q.
Proof.
  split; [reflexivity|]. split; [apply wltb_lt; vm_compute; reflexivity|]. split; [reflexivity|].
  split; [grid_by 15|]. split; [reflexivity|]. split; [grid_by (-35)|]. vm_compute. split; reflexivity.
Qed.
Example C17_ex_rescale :
  is_finite 53 1024 c_half = true /\ (w0 < f2q c_half)%Qc /\
  grid53 2 (f2q (su_sum rx_t) * f2q c_half) /\ grid53 1 (f2q (su_min rx_t) * f2q c_half) /\
  grid53 2 (f2q (su_max rx_t) * f2q c_half) /\
  wx_show (Some (su_rescale rx_t c_half)) = Some (3 # 1, -7 # 4, -3 # 2, 5 # 4)%Q /\
  map bits_of_f64 [su_min (su_rescale su_new c_half); su_max (su_rescale su_new c_half)] = map bits_of_f64 [f64_pinf; f64_ninf].
Proof.
  split; [reflexivity|]. split; [apply wltb_lt; vm_compute; reflexivity|].
  split; [grid_by (-7)|]. split; [grid_by (-3)|]. split; [grid_by 5|]. vm_compute. split; reflexivity.
Qed.
