(* Props/C20 — the reference dataset (dataset/dataset.go): statements only.
   Model: SK.Data.Dataset.  Definitions used in the statements and all proofs: SK.Data.DatasetProofs.

   Reading aid (all plain definitions, unfold them to read the statements):
     ofZ z                 = Q2Qc (inject_Z z)          the integer z as a Qc (local notation)
     DInv d                = ds_count d = ofZ (length (ds_values d)) /\
                             (ds_sorted d = true -> Sorted Qcle (ds_values d))
     op                    = OAdd v | OLower q | OUpper q | OMin | OMax     (q : option Qc, None = NaN)
     step sort rnd o d     = (dataset after o, [answer])   ([] for OAdd)
     run sort rnd ops d    = (final dataset, answers of the queries of ops in order)
     adds ops              = the values added by ops, in order
     is_query o            = o is not an OAdd
     ref_run sort rnd ops xs = reference semantics that keeps only the list xs of added values
                             and answers from [sort xs] (no flag, no count field)
     qsum l                = fold_right Qcplus 0 l
     answers are [option Qc]: for quantiles None = NaN or index out of range, for Min/Max None =
     index out of range (panic).

   Premises.  Every theorem is stated for arbitrary [sort] and [rnd] with only the hypotheses it
   needs, as explicit premises:
     sort_sorted : forall l, Sorted Qcle (sort l)
     sort_perm   : forall l, Permutation l (sort l)
     rnd_mono    : forall x y, x <= y -> rnd x <= rnd y
     rnd_int     : forall z, 0 <= z <= B -> rnd (ofZ z) = ofZ z
   [B] is universally quantified (binary64: B = 2^53) and the theorems using [rnd_int] have the
   premise  length xs - 1 <= B.  The [_allint] variants take  forall z, 0 <= z -> rnd (ofZ z) = ofZ z
   and have no length premise.  The refinement / invariant / merge / order-independence theorems
   need no hypothesis on [rnd] at all. *)
From Coq Require Import List Sorted Permutation ZArith QArith Qcanon Qround Lia.
From SK Require Import Data.Dataset Data.DatasetProofs.
Import ListNotations.
Local Open Scope Z_scope.
Local Notation ofZ z := (Q2Qc (inject_Z z)).

(* ------------------------------------------------------------------ *)
(** * 1. invariant                                                     *)

Theorem C20_inv_new : DInv d_new.
Proof. exact DInv_new. Qed.
Print Assumptions C20_inv_new.

Theorem C20_inv_add : forall (d : dataset) (v : Qc), DInv d -> DInv (d_add d v).
Proof. exact DInv_add. Qed.
Print Assumptions C20_inv_add.

Theorem C20_inv_merge : forall d o : dataset, DInv d -> DInv (d_merge d o).
Proof. exact DInv_merge. Qed.
Print Assumptions C20_inv_merge.

Theorem C20_inv_lower : forall (sort : list Qc -> list Qc) (rnd : Qc -> Qc),
  (forall l, Sorted Qcle (sort l)) -> (forall l, Permutation l (sort l)) ->
  forall (d : dataset) (q : option Qc), DInv d ->
  DInv (fst (d_lower sort rnd d q)) /\
  Permutation (ds_values d) (ds_values (fst (d_lower sort rnd d q))).
Proof. exact DInv_query_lower. Qed.
Print Assumptions C20_inv_lower.

Theorem C20_inv_upper : forall (sort : list Qc -> list Qc) (rnd : Qc -> Qc),
  (forall l, Sorted Qcle (sort l)) -> (forall l, Permutation l (sort l)) ->
  forall (d : dataset) (q : option Qc), DInv d ->
  DInv (fst (d_upper sort rnd d q)) /\
  Permutation (ds_values d) (ds_values (fst (d_upper sort rnd d q))).
Proof. exact DInv_query_upper. Qed.
Print Assumptions C20_inv_upper.

Theorem C20_inv_min : forall (sort : list Qc -> list Qc),
  (forall l, Sorted Qcle (sort l)) -> (forall l, Permutation l (sort l)) ->
  forall d : dataset, DInv d ->
  DInv (fst (d_min sort d)) /\ Permutation (ds_values d) (ds_values (fst (d_min sort d))).
Proof. exact DInv_query_min. Qed.
Print Assumptions C20_inv_min.

Theorem C20_inv_max : forall (sort : list Qc -> list Qc),
  (forall l, Sorted Qcle (sort l)) -> (forall l, Permutation l (sort l)) ->
  forall d : dataset, DInv d ->
  DInv (fst (d_max sort d)) /\ Permutation (ds_values d) (ds_values (fst (d_max sort d))).
Proof. exact DInv_query_max. Qed.
Print Assumptions C20_inv_max.

(** every state reachable from NewDataset() by Add / queries (Merge = Adds, see C20_merge_is_adds) *)
Theorem C20_reachable_inv : forall (sort : list Qc -> list Qc) (rnd : Qc -> Qc),
  (forall l, Sorted Qcle (sort l)) -> (forall l, Permutation l (sort l)) ->
  forall ops : list op,
  let d := fst (run sort rnd ops d_new) in
  DInv d /\ Permutation (adds ops) (ds_values d) /\
  ds_count d = ofZ (Z.of_nat (length (adds ops))).
Proof. exact reachable_inv. Qed.
Print Assumptions C20_reachable_inv.

(* ------------------------------------------------------------------ *)
(** * 2. queries are order statistics of everything added so far       *)

Theorem C20_sorted_perm_unique : forall a b : list Qc,
  Sorted Qcle a -> Sorted Qcle b -> Permutation a b -> a = b.
Proof. exact sorted_perm_unique. Qed.
Print Assumptions C20_sorted_perm_unique.

(** all answers of any history = answers of the flag-free reference semantics *)
Theorem C20_run_refines_ref : forall (sort : list Qc -> list Qc) (rnd : Qc -> Qc),
  (forall l, Sorted Qcle (sort l)) -> (forall l, Permutation l (sort l)) ->
  forall ops : list op, snd (run sort rnd ops d_new) = ref_run sort rnd ops [].
Proof. exact run_refines_ref. Qed.
Print Assumptions C20_run_refines_ref.

(** [s] is ANY sorted permutation of the values added by [pre]; the answer is [Some _]:
    never the index-out-of-range panic, never NaN *)
Theorem C20_queries_are_order_statistics :
  forall (sort : list Qc -> list Qc) (rnd : Qc -> Qc) (B : Z),
  (forall l, Sorted Qcle (sort l)) -> (forall l, Permutation l (sort l)) ->
  (forall x y : Qc, (x <= y)%Qc -> (rnd x <= rnd y)%Qc) ->
  (forall z : Z, 0 <= z <= B -> rnd (ofZ z) = ofZ z) ->
  forall (pre : list op) (q : Qc) (s : list Qc),
  let xs := adds pre in
  let rho := rnd (q * (ofZ (Z.of_nat (length xs)) - 1))%Qc in
  Sorted Qcle s -> Permutation xs s ->
  xs <> [] -> (0 <= q)%Qc -> (q <= 1)%Qc -> Z.of_nat (length xs) - 1 <= B ->
  (exists v, nth_error s (Z.to_nat (qfloor rho)) = Some v /\
     snd (run sort rnd (pre ++ [OLower (Some q)]) d_new) = snd (run sort rnd pre d_new) ++ [Some v]) /\
  (exists v, nth_error s (Z.to_nat (qceil rho)) = Some v /\
     snd (run sort rnd (pre ++ [OUpper (Some q)]) d_new) = snd (run sort rnd pre d_new) ++ [Some v]).
Proof. exact queries_are_order_statistics. Qed.
Print Assumptions C20_queries_are_order_statistics.

Theorem C20_queries_are_order_statistics_allint :
  forall (sort : list Qc -> list Qc) (rnd : Qc -> Qc),
  (forall l, Sorted Qcle (sort l)) -> (forall l, Permutation l (sort l)) ->
  (forall x y : Qc, (x <= y)%Qc -> (rnd x <= rnd y)%Qc) ->
  (forall z : Z, 0 <= z -> rnd (ofZ z) = ofZ z) ->
  forall (pre : list op) (q : Qc) (s : list Qc),
  let xs := adds pre in
  let rho := rnd (q * (ofZ (Z.of_nat (length xs)) - 1))%Qc in
  Sorted Qcle s -> Permutation xs s -> xs <> [] -> (0 <= q)%Qc -> (q <= 1)%Qc ->
  (exists v, nth_error s (Z.to_nat (qfloor rho)) = Some v /\
     snd (run sort rnd (pre ++ [OLower (Some q)]) d_new) = snd (run sort rnd pre d_new) ++ [Some v]) /\
  (exists v, nth_error s (Z.to_nat (qceil rho)) = Some v /\
     snd (run sort rnd (pre ++ [OUpper (Some q)]) d_new) = snd (run sort rnd pre d_new) ++ [Some v]).
Proof. exact queries_are_order_statistics_allint. Qed.
Print Assumptions C20_queries_are_order_statistics_allint.

(** the same with [sort] itself and the index bound *)
Theorem C20_lower_is_order_statistic :
  forall (sort : list Qc -> list Qc) (rnd : Qc -> Qc) (B : Z),
  (forall l, Sorted Qcle (sort l)) -> (forall l, Permutation l (sort l)) ->
  (forall x y : Qc, (x <= y)%Qc -> (rnd x <= rnd y)%Qc) ->
  (forall z : Z, 0 <= z <= B -> rnd (ofZ z) = ofZ z) ->
  forall (pre : list op) (q : Qc),
  let xs := adds pre in
  let k := Z.to_nat (qfloor (rnd (q * (ofZ (Z.of_nat (length xs)) - 1))%Qc)) in
  xs <> [] -> (0 <= q)%Qc -> (q <= 1)%Qc -> Z.of_nat (length xs) - 1 <= B ->
  snd (run sort rnd (pre ++ [OLower (Some q)]) d_new) =
    snd (run sort rnd pre d_new) ++ [nth_error (sort xs) k] /\
  (k < length xs)%nat /\ exists v, nth_error (sort xs) k = Some v.
Proof. exact lower_is_order_statistic. Qed.
Print Assumptions C20_lower_is_order_statistic.

Theorem C20_upper_is_order_statistic :
  forall (sort : list Qc -> list Qc) (rnd : Qc -> Qc) (B : Z),
  (forall l, Sorted Qcle (sort l)) -> (forall l, Permutation l (sort l)) ->
  (forall x y : Qc, (x <= y)%Qc -> (rnd x <= rnd y)%Qc) ->
  (forall z : Z, 0 <= z <= B -> rnd (ofZ z) = ofZ z) ->
  forall (pre : list op) (q : Qc),
  let xs := adds pre in
  let k := Z.to_nat (qceil (rnd (q * (ofZ (Z.of_nat (length xs)) - 1))%Qc)) in
  xs <> [] -> (0 <= q)%Qc -> (q <= 1)%Qc -> Z.of_nat (length xs) - 1 <= B ->
  snd (run sort rnd (pre ++ [OUpper (Some q)]) d_new) =
    snd (run sort rnd pre d_new) ++ [nth_error (sort xs) k] /\
  (k < length xs)%nat /\ exists v, nth_error (sort xs) k = Some v.
Proof. exact upper_is_order_statistic. Qed.
Print Assumptions C20_upper_is_order_statistic.

(* ------------------------------------------------------------------ *)
(** * 3. rounded rank vs exact rank                                    *)

Theorem C20_rank_between_floor_ceil : forall (rnd : Qc -> Qc) (B : Z),
  (forall x y : Qc, (x <= y)%Qc -> (rnd x <= rnd y)%Qc) ->
  (forall z : Z, 0 <= z <= B -> rnd (ofZ z) = ofZ z) ->
  forall r : Qc, 0 <= qfloor r -> qceil r <= B ->
  qfloor r <= qfloor (rnd r) /\ qfloor (rnd r) <= qceil (rnd r) /\ qceil (rnd r) <= qceil r /\
  qceil r <= qfloor r + 1.
Proof. exact rank_between_floor_ceil. Qed.
Print Assumptions C20_rank_between_floor_ceil.

(** with r = q (n-1) the exact rank of a valid query on n = length xs >= 1 values: the positions
    used by LowerQuantile / UpperQuantile (floor / ceil of rnd r, see 2) lie in [floor r, ceil r],
    an interval of at most two adjacent positions inside [0, n-1] *)
Theorem C20_quantile_position_bracket : forall (rnd : Qc -> Qc) (B : Z),
  (forall x y : Qc, (x <= y)%Qc -> (rnd x <= rnd y)%Qc) ->
  (forall z : Z, 0 <= z <= B -> rnd (ofZ z) = ofZ z) ->
  forall (xs : list Qc) (q : Qc),
  let r := (q * (ofZ (Z.of_nat (length xs)) - 1))%Qc in
  xs <> [] -> (0 <= q)%Qc -> (q <= 1)%Qc -> Z.of_nat (length xs) - 1 <= B ->
  0 <= qfloor r /\ qfloor r <= qfloor (rnd r) /\ qfloor (rnd r) <= qceil (rnd r) /\
  qceil (rnd r) <= qceil r /\ qceil r <= qfloor r + 1 /\ qceil r <= Z.of_nat (length xs) - 1.
Proof. exact quantile_position_bracket. Qed.
Print Assumptions C20_quantile_position_bracket.

Theorem C20_quantile_position_bracket_allint : forall (rnd : Qc -> Qc),
  (forall x y : Qc, (x <= y)%Qc -> (rnd x <= rnd y)%Qc) ->
  (forall z : Z, 0 <= z -> rnd (ofZ z) = ofZ z) ->
  forall (xs : list Qc) (q : Qc),
  let r := (q * (ofZ (Z.of_nat (length xs)) - 1))%Qc in
  xs <> [] -> (0 <= q)%Qc -> (q <= 1)%Qc ->
  0 <= qfloor r /\ qfloor r <= qfloor (rnd r) /\ qfloor (rnd r) <= qceil (rnd r) /\
  qceil (rnd r) <= qceil r /\ qceil r <= qfloor r + 1 /\ qceil r <= Z.of_nat (length xs) - 1.
Proof. exact quantile_position_bracket_allint. Qed.
Print Assumptions C20_quantile_position_bracket_allint.

(** exact rank = integer k (e.g. q = k/(n-1) representable): both are the k-th order statistic *)
Theorem C20_quantile_exact_rank :
  forall (sort : list Qc -> list Qc) (rnd : Qc -> Qc) (B : Z),
  (forall l, Sorted Qcle (sort l)) -> (forall l, Permutation l (sort l)) ->
  (forall x y : Qc, (x <= y)%Qc -> (rnd x <= rnd y)%Qc) ->
  (forall z : Z, 0 <= z <= B -> rnd (ofZ z) = ofZ z) ->
  forall (pre : list op) (q : Qc) (k : nat),
  let xs := adds pre in
  xs <> [] -> (0 <= q)%Qc -> (q <= 1)%Qc -> Z.of_nat (length xs) - 1 <= B ->
  (q * (ofZ (Z.of_nat (length xs)) - 1))%Qc = ofZ (Z.of_nat k) ->
  (exists v, nth_error (sort xs) k = Some v) /\
  snd (run sort rnd (pre ++ [OLower (Some q)]) d_new) =
    snd (run sort rnd pre d_new) ++ [nth_error (sort xs) k] /\
  snd (run sort rnd (pre ++ [OUpper (Some q)]) d_new) =
    snd (run sort rnd pre d_new) ++ [nth_error (sort xs) k].
Proof. exact quantile_exact_rank. Qed.
Print Assumptions C20_quantile_exact_rank.

(* ------------------------------------------------------------------ *)
(** * 4. NaN cases                                                     *)

Theorem C20_quantile_none_iff :
  forall (sort : list Qc -> list Qc) (rnd : Qc -> Qc) (B : Z),
  (forall l, Sorted Qcle (sort l)) -> (forall l, Permutation l (sort l)) ->
  (forall x y : Qc, (x <= y)%Qc -> (rnd x <= rnd y)%Qc) ->
  (forall z : Z, 0 <= z <= B -> rnd (ofZ z) = ofZ z) ->
  forall (pick : Qc -> Z) (d : dataset) (q : option Qc),
  pick = qfloor \/ pick = qceil -> DInv d -> Z.of_nat (length (ds_values d)) - 1 <= B ->
  (snd (d_quantile_at sort rnd pick d q) = None <->
   q = None \/ exists q', q = Some q' /\ ((q' < 0)%Qc \/ (1 < q')%Qc \/ ds_values d = [])).
Proof. exact quantile_none_iff. Qed.
Print Assumptions C20_quantile_none_iff.

Theorem C20_quantile_none_iff_allint :
  forall (sort : list Qc -> list Qc) (rnd : Qc -> Qc),
  (forall l, Sorted Qcle (sort l)) -> (forall l, Permutation l (sort l)) ->
  (forall x y : Qc, (x <= y)%Qc -> (rnd x <= rnd y)%Qc) ->
  (forall z : Z, 0 <= z -> rnd (ofZ z) = ofZ z) ->
  forall (pick : Qc -> Z) (d : dataset) (q : option Qc),
  pick = qfloor \/ pick = qceil -> DInv d ->
  (snd (d_quantile_at sort rnd pick d q) = None <->
   q = None \/ exists q', q = Some q' /\ ((q' < 0)%Qc \/ (1 < q')%Qc \/ ds_values d = [])).
Proof. exact quantile_none_iff_allint. Qed.
Print Assumptions C20_quantile_none_iff_allint.

(* ------------------------------------------------------------------ *)
(** * 5. Min / Max / Count / Sum                                       *)

Theorem C20_min_is_least : forall (sort : list Qc -> list Qc) (rnd : Qc -> Qc),
  (forall l, Sorted Qcle (sort l)) -> (forall l, Permutation l (sort l)) ->
  forall pre : list op, adds pre <> [] ->
  exists m, snd (run sort rnd (pre ++ [OMin]) d_new) = snd (run sort rnd pre d_new) ++ [Some m] /\
            In m (adds pre) /\ forall x, In x (adds pre) -> (m <= x)%Qc.
Proof. exact min_is_least. Qed.
Print Assumptions C20_min_is_least.

Theorem C20_max_is_greatest : forall (sort : list Qc -> list Qc) (rnd : Qc -> Qc),
  (forall l, Sorted Qcle (sort l)) -> (forall l, Permutation l (sort l)) ->
  forall pre : list op, adds pre <> [] ->
  exists M, snd (run sort rnd (pre ++ [OMax]) d_new) = snd (run sort rnd pre d_new) ++ [Some M] /\
            In M (adds pre) /\ forall x, In x (adds pre) -> (x <= M)%Qc.
Proof. exact max_is_greatest. Qed.
Print Assumptions C20_max_is_greatest.

(** Min / Max of an empty dataset: index out of range (the Go code panics) *)
Theorem C20_min_max_empty : forall (sort : list Qc -> list Qc) (rnd : Qc -> Qc),
  (forall l, Sorted Qcle (sort l)) -> (forall l, Permutation l (sort l)) ->
  forall pre : list op, adds pre = [] ->
  snd (run sort rnd (pre ++ [OMin]) d_new) = snd (run sort rnd pre d_new) ++ [None] /\
  snd (run sort rnd (pre ++ [OMax]) d_new) = snd (run sort rnd pre d_new) ++ [None].
Proof. exact min_max_empty. Qed.
Print Assumptions C20_min_max_empty.

Theorem C20_d_min_least : forall (sort : list Qc -> list Qc),
  (forall l, Sorted Qcle (sort l)) -> (forall l, Permutation l (sort l)) ->
  forall d : dataset, DInv d -> ds_values d <> [] ->
  exists m, snd (d_min sort d) = Some m /\ In m (ds_values d) /\
            forall x, In x (ds_values d) -> (m <= x)%Qc.
Proof. exact d_min_least. Qed.
Print Assumptions C20_d_min_least.

Theorem C20_d_max_greatest : forall (sort : list Qc -> list Qc),
  (forall l, Sorted Qcle (sort l)) -> (forall l, Permutation l (sort l)) ->
  forall d : dataset, DInv d -> ds_values d <> [] ->
  exists M, snd (d_max sort d) = Some M /\ In M (ds_values d) /\
            forall x, In x (ds_values d) -> (x <= M)%Qc.
Proof. exact d_max_greatest. Qed.
Print Assumptions C20_d_max_greatest.

Theorem C20_count_and_sum : forall (sort : list Qc -> list Qc) (rnd : Qc -> Qc),
  (forall l, Sorted Qcle (sort l)) -> (forall l, Permutation l (sort l)) ->
  forall ops : list op,
  ds_count (fst (run sort rnd ops d_new)) = ofZ (Z.of_nat (length (adds ops))) /\
  d_sum_exact (fst (run sort rnd ops d_new)) = qsum (adds ops).
Proof. exact count_and_sum. Qed.
Print Assumptions C20_count_and_sum.

Theorem C20_sum_perm : forall d d' : dataset,
  Permutation (ds_values d) (ds_values d') -> d_sum_exact d = d_sum_exact d'.
Proof. exact sum_perm. Qed.
Print Assumptions C20_sum_perm.

Theorem C20_qsum_perm : forall l l' : list Qc, Permutation l l' -> qsum l = qsum l'.
Proof. exact qsum_perm. Qed.
Print Assumptions C20_qsum_perm.

(** any sequence of queries leaves Count, Sum and the multiset unchanged *)
Theorem C20_queries_keep_count_sum : forall (sort : list Qc -> list Qc) (rnd : Qc -> Qc),
  (forall l, Sorted Qcle (sort l)) -> (forall l, Permutation l (sort l)) ->
  forall (ops : list op) (d : dataset), DInv d -> adds ops = [] ->
  ds_count (fst (run sort rnd ops d)) = ds_count d /\
  d_sum_exact (fst (run sort rnd ops d)) = d_sum_exact d /\
  Permutation (ds_values d) (ds_values (fst (run sort rnd ops d))).
Proof. exact queries_keep_count_sum. Qed.
Print Assumptions C20_queries_keep_count_sum.

(* ------------------------------------------------------------------ *)
(** * 6. Merge                                                         *)

(** what the model does: values appended, counts added, the flag is cleared unless [o] has no
    value (then [d] is returned unchanged); Merge is the history [map OAdd (ds_values o)] *)
Theorem C20_merge_is_adds : forall (sort : list Qc -> list Qc) (rnd : Qc -> Qc) (d o : dataset),
  run sort rnd (map OAdd (ds_values o)) d = (d_merge d o, []) /\
  ds_values (d_merge d o) = ds_values d ++ ds_values o /\
  (DInv o -> ds_count (d_merge d o) = (ds_count d + ds_count o)%Qc) /\
  ds_sorted (d_merge d o) = match ds_values o with [] => ds_sorted d | _ => false end /\
  (ds_values o = [] -> d_merge d o = d).
Proof.
  intros sort rnd d o.
  exact (conj (run_merge sort rnd d o) (conj (merge_values d o) (conj (merge_count d o)
        (conj (merge_sorted_flag d o) (merge_empty d o))))).
Qed.
Print Assumptions C20_merge_is_adds.

(** merging two reachable datasets, then any operations: same answers as one dataset to which
    all the values were added *)
Theorem C20_merge_then_queries : forall (sort : list Qc -> list Qc) (rnd : Qc -> Qc),
  (forall l, Sorted Qcle (sort l)) -> (forall l, Permutation l (sort l)) ->
  forall ops1 ops2 ops : list op,
  let d := fst (run sort rnd ops1 d_new) in
  let o := fst (run sort rnd ops2 d_new) in
  snd (run sort rnd ops (d_merge d o)) =
  snd (run sort rnd ops (fst (run sort rnd (map OAdd (adds ops1 ++ adds ops2)) d_new))).
Proof. exact merge_then_queries. Qed.
Print Assumptions C20_merge_then_queries.

(* ------------------------------------------------------------------ *)
(** * 7. order independence (excludes the stale-sorted-flag bug class) *)

Theorem C20_order_independent : forall (sort : list Qc -> list Qc) (rnd : Qc -> Qc),
  (forall l, Sorted Qcle (sort l)) -> (forall l, Permutation l (sort l)) ->
  forall (xs ys : list Qc) (o : op), Permutation xs ys ->
  snd (run sort rnd (map OAdd xs ++ [o]) d_new) = snd (run sort rnd (map OAdd ys ++ [o]) d_new).
Proof. exact order_independent. Qed.
Print Assumptions C20_order_independent.

(** queries inserted anywhere in the past change no later answer *)
Theorem C20_queries_transparent : forall (sort : list Qc -> list Qc) (rnd : Qc -> Qc),
  (forall l, Sorted Qcle (sort l)) -> (forall l, Permutation l (sort l)) ->
  forall a qs b ops : list op, Forall is_query qs ->
  snd (run sort rnd ops (fst (run sort rnd (a ++ qs ++ b) d_new))) =
  snd (run sort rnd ops (fst (run sort rnd (a ++ b) d_new))).
Proof. exact queries_transparent. Qed.
Print Assumptions C20_queries_transparent.

(** general form: later answers depend only on the multiset of the values added so far *)
Theorem C20_answers_depend_on_multiset : forall (sort : list Qc -> list Qc) (rnd : Qc -> Qc),
  (forall l, Sorted Qcle (sort l)) -> (forall l, Permutation l (sort l)) ->
  forall ops1 ops2 ops : list op, Permutation (adds ops1) (adds ops2) ->
  snd (run sort rnd ops (fst (run sort rnd ops1 d_new))) =
  snd (run sort rnd ops (fst (run sort rnd ops2 d_new))).
Proof. exact answers_depend_on_multiset. Qed.
Print Assumptions C20_answers_depend_on_multiset.

(* ------------------------------------------------------------------ *)
(** * the premises are satisfiable: insertion sort and the identity rounding *)

Fixpoint ex_ins (x : Qc) (l : list Qc) : list Qc :=
  match l with
  | [] => [x]
  | y :: t => if wleb x y then x :: y :: t else y :: ex_ins x t
  end.
Fixpoint ex_sort (l : list Qc) : list Qc :=
  match l with [] => [] | x :: t => ex_ins x (ex_sort t) end.
Definition ex_rnd (x : Qc) : Qc := x.

Example C20_ex_history :
  snd (run ex_sort ex_rnd
         [OAdd (ofZ 3); OAdd (ofZ 1); OAdd (ofZ 2);
          OLower (Some (Q2Qc (1 # 2))); OMax;
          OAdd (ofZ 0);
          OLower (Some (Q2Qc (1 # 2))); OUpper (Some (Q2Qc (1 # 2))); OMin; OMax;
          OUpper (Some (Q2Qc (3 # 2))); OLower None] d_new)
  = [Some (ofZ 2); Some (ofZ 3);
     Some (ofZ 1); Some (ofZ 2); Some (ofZ 0); Some (ofZ 3);
     None; None].
Proof. vm_compute. reflexivity. Qed.
Print Assumptions C20_ex_history.

Lemma ex_wleb_true (x y : Qc) : wleb x y = true -> (x <= y)%Qc.
Proof.
  unfold wleb. intros H. apply Qcle_alt. intros E. rewrite E in H. discriminate.
Qed.
Lemma ex_wleb_false (x y : Qc) : wleb x y = false -> (y <= x)%Qc.
Proof.
  unfold wleb. intros H. apply Qclt_le_weak, Qcgt_alt.
  destruct (x ?= y)%Qc; [discriminate | discriminate | reflexivity].
Qed.
Lemma ex_ins_perm (x : Qc) (l : list Qc) : Permutation (x :: l) (ex_ins x l).
Proof.
  induction l as [|y t IH]; simpl; [apply Permutation_refl|].
  destruct (wleb x y); [apply Permutation_refl|].
  eapply Permutation_trans; [apply perm_swap | apply perm_skip, IH].
Qed.
Lemma ex_ins_sorted (x : Qc) (l : list Qc) : Sorted Qcle l -> Sorted Qcle (ex_ins x l).
Proof.
  induction 1 as [|y t Ht IH Hy]; simpl; [repeat constructor|].
  destruct (wleb x y) eqn:E.
  - constructor; [constructor; assumption | constructor; now apply ex_wleb_true].
  - constructor; [exact IH|]. apply ex_wleb_false in E.
    destruct t as [|z t]; simpl; [constructor; exact E|].
    destruct (wleb x z); constructor; [exact E | now inversion Hy].
Qed.
Example C20_ex_sort_sorted : forall l, Sorted Qcle (ex_sort l).
Proof. induction l as [|x l IH]; simpl; [constructor | now apply ex_ins_sorted]. Qed.
Example C20_ex_sort_perm : forall l, Permutation l (ex_sort l).
Proof.
  induction l as [|x l IH]; simpl; [constructor|].
  eapply Permutation_trans; [apply perm_skip, IH | apply ex_ins_perm].
Qed.
Example C20_ex_rnd_mono : forall x y : Qc, (x <= y)%Qc -> (ex_rnd x <= ex_rnd y)%Qc.
Proof. intros x y H. exact H. Qed.
Example C20_ex_rnd_int : forall z : Z, 0 <= z -> ex_rnd (ofZ z) = ofZ z.
Proof. reflexivity. Qed.

(** hence the main theorem holds, unconditionally, for this instance *)
Example C20_ex_main : forall (pre : list op) (q : Qc),
  let xs := adds pre in
  let rho := (q * (ofZ (Z.of_nat (length xs)) - 1))%Qc in
  xs <> [] -> (0 <= q)%Qc -> (q <= 1)%Qc ->
  (exists v, nth_error (ex_sort xs) (Z.to_nat (qfloor rho)) = Some v /\
     snd (run ex_sort ex_rnd (pre ++ [OLower (Some q)]) d_new) =
     snd (run ex_sort ex_rnd pre d_new) ++ [Some v]) /\
  (exists v, nth_error (ex_sort xs) (Z.to_nat (qceil rho)) = Some v /\
     snd (run ex_sort ex_rnd (pre ++ [OUpper (Some q)]) d_new) =
     snd (run ex_sort ex_rnd pre d_new) ++ [Some v]).
Proof.
  intros pre q xs rho Hne H0 H1.
  exact (queries_are_order_statistics_allint ex_sort ex_rnd C20_ex_sort_sorted C20_ex_sort_perm
           C20_ex_rnd_mono C20_ex_rnd_int pre q (ex_sort xs)
           (C20_ex_sort_sorted xs) (C20_ex_sort_perm xs) Hne H0 H1).
Qed.
Print Assumptions C20_ex_main.
