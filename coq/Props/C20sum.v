(* Props/C20sum — "a sum accurate to rounding" for the reference dataset (dataset/dataset.go Sum()): statements only.
   Model: SK.Data.DatasetSum (d_sum_f64 = the loop of Sum() on the binary64 instance of the summary statistics, the
   function the extracted driver runs against the implementation at every `dsum`); proofs: Data/DatasetSum.v on top of
   the compensated-sum analysis Stat/KahanProofs.v.
     val x     = the real number a finite binary64 denotes          finite x = x is neither NaN nor infinite
     u = 2^-53, eta = 2^-1075 (half the smallest subnormal)
   The constant 8 (not 4) is explained in Props/Kahan.v (sign of the compensation in Sum()). *)
From Coq Require Import Bool ZArith QArith Qcanon Reals List Lia Lra.
From Flocq Require Import Core.Core IEEE754.BinarySingleNaN IEEE754.Binary IEEE754.Bits.
From SK Require Import Base.Prelude Base.F64 Base.F64Proofs Stat.Summary Stat.KahanProofs Data.Dataset Data.DatasetSum.
Import ListNotations.
Local Open Scope R_scope.
Local Notation finite x := (is_finite 53 1024 x = true).
Local Notation val x := (B2R 53 1024 x).
Local Notation u := (bpow radix2 (-53)).
Local Notation eta := (bpow radix2 (-1075)).
Local Notation total rs := (fold_right Rplus 0 rs).
Local Notation total_abs rs := (fold_right (fun x a => Rabs x + a) 0 rs).
Local Notation vals xs := (map (fun x : f64 => val x) xs).

(* Sum() is the fold of Add(v, 1) from a fresh summary followed by Sum() *)
Theorem C20_sum_is_summary_fold (xs : list f64) :
  d_sum_f64 xs = su_get_sum (fold_left (fun t v => su_add t v f64_one) xs su_new).
Proof. reflexivity. Qed.
Print Assumptions C20_sum_is_summary_fold.

(* accurate to rounding: for every sequence of n <= 2^50 finite values whose absolute values total at most 2^999 *)
Theorem C20_sum_accuracy (xs : list f64) :
  Forall (fun x : f64 => finite x) xs -> (Z.of_nat (length xs) <= 2 ^ 50)%Z -> total_abs (vals xs) <= bpow radix2 999 ->
  let n := INR (length xs) in
  finite (d_sum_f64 xs) /\
  Rabs (val (d_sum_f64 xs) - total (vals xs)) <= (8 * u + (10 * n + 49) * u ^ 2) * total_abs (vals xs) + 2 * n * eta.
Proof. exact (d_sum_f64_err xs). Qed.
Print Assumptions C20_sum_accuracy.

(* merging datasets, then summing = summing the concatenated value sequences *)
Theorem C20_sum_merge (d o : dataset) :
  xd_sum (d_merge d o) = d_sum_f64 (map q2f (ds_values d) ++ map q2f (ds_values o)).
Proof. exact (xd_sum_merge d o). Qed.
Print Assumptions C20_sum_merge.

(* non-vacuity and the compensation at work: {2^53, 1, 1} sums to exactly 2^53 + 2 (a naive left-to-right sum stays at 2^53) *)
Definition ex_vals : list f64 := map f64_of_bits [0x4340000000000000; 0x3FF0000000000000; 0x3FF0000000000000]%N.
Example C20_sum_example :
  forallb (fun x => is_finite 53 1024 x) ex_vals = true /\ bits_of_f64 (d_sum_f64 ex_vals) = 0x4340000000000001%N /\
  bits_of_f64 (fold_left fadd ex_vals f64_zero) = 0x4340000000000000%N.
Proof. vm_compute. repeat split. Qed.
