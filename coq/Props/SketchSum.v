(* Props/SketchSum — DDSketch.GetSum ("the sum agrees with the true sum of value*weight up to rounding", the float clause
   of C12) and the refusal rule of NewDDSketchWithExactSummaryStatisticsFromData (C10): statements only.
   Model: SK.Sketch.SketchSum (sum_fold_f64 = the ForEach callback  sum += value * count  in binary64, folded in
   iteration order from 0; sk_get_sum_f64 = the same on the (value, count) pairs sk_foreach produces; sk_from_data);
   proofs: Sketch/SketchSumProofs.v on top of the per-operation lemmas of Stat/KahanProofs.v.  Every theorem quantifies
   over ALL binary64 values satisfying its premises.

   Reading aid (notations local to this file; they unfold to Flocq terms only):
     finite x          is_finite 53 1024 x = true       val x   B2R 53 1024 x, the real number x denotes
     u                 2^-53   (unit roundoff)          eta     2^-1075 (half the smallest subnormal)
     total rs / total_abs rs      sum of a list of reals / of their absolute values
     products l        the exact products value*count of a list of (value, count) pairs
     pairs_finite l    every value and every count is finite

   GetSum is the plain recursive sum (no compensation): n multiplications, n additions.  The error is relative to the
   total of |value*count| (NOT to the sum itself: cancellation between positive and negative bins is not protected),
   first-order constant (n+1) u, plus eta per product that falls in the subnormal range.
   The no-overflow premise is the explicit bound 2^1000 on the total of the absolute exact products; the length premise
   n <= 2^50 keeps n u <= 1/8 (second-order term, and (1+u)^n <= 2 for the no-overflow argument). *)
From Coq Require Import Bool NArith ZArith QArith Qcanon Reals List Lia Lra.
From Flocq Require Import Core.Core IEEE754.BinarySingleNaN IEEE754.Binary IEEE754.Bits.
From SK Require Import Sketch.Sketch Sketch.SketchSum.
From SK Require Import Base.Prelude Base.F64 Base.F64Proofs Stat.Summary Mapping.Glue Stat.KahanProofs Sketch.SketchSumProofs.
Import ListNotations.
Local Open Scope R_scope.

Local Notation finite x := (is_finite 53 1024 x = true).
Local Notation val x := (B2R 53 1024 x).
Local Notation u := (bpow radix2 (-53)).
Local Notation eta := (bpow radix2 (-1075)).
Local Notation total rs := (fold_right Rplus 0 rs).
Local Notation total_abs rs := (fold_right (fun x a => Rabs x + a) 0 rs).
Local Notation products l := (map (fun vw : f64 * f64 => val (fst vw) * val (snd vw)) l).
Local Notation pairs_finite l := (Forall (fun vw : f64 * f64 => finite (fst vw) /\ finite (snd vw)) l).

(* ------------------------------------------------------------------ *)
(* C12 (float clause): GetSum                                           *)
(* ------------------------------------------------------------------ *)
(* GetSum is this fold: additions of rounded products, left to right from +0 *)
Theorem C12_f_sum_is_fold (l : list (f64 * f64)) :
  sum_fold_f64 l = fold_left fadd (map (fun vw => fmul (fst vw) (snd vw)) l) f64_zero.
Proof. exact (sum_fold_f64_eq l). Qed.
Print Assumptions C12_f_sum_is_fold.

(* on the pairs ForEach produces (exact rationals in the model, converted to float64 for the callback) *)
Theorem C12_f_get_sum_is_fold (l : list (Qc * W)) :
  sk_get_sum_f64 l = sum_fold_f64 (map (fun vc => (q2f (fst vc), q2f (snd vc))) l).
Proof. reflexivity. Qed.
Print Assumptions C12_f_get_sum_is_fold.

(* accurate to rounding, explicit constants: for n <= 2^50 finite pairs whose |value*count| total at most 2^1000 *)
Theorem C12_f_sum_accuracy (l : list (f64 * f64)) :
  pairs_finite l -> (Z.of_nat (length l) <= 2 ^ 50)%Z -> total_abs (products l) <= bpow radix2 1000 ->
  let n := INR (length l) in
  finite (sum_fold_f64 l) /\
  Rabs (val (sum_fold_f64 l) - total (products l)) <=
    (n + 1) * u * (1 + (n + 1) * u) * total_abs (products l) + 2 * n * eta.
Proof. exact (sum_fold_f64_err l). Qed.
Print Assumptions C12_f_sum_accuracy.

(* the textbook shape: (1+u)^(n+1) - 1 on the total of the absolute products, eta per product amplified by the additions *)
Theorem C12_f_sum_accuracy_pow (l : list (f64 * f64)) :
  pairs_finite l -> (Z.of_nat (length l) <= 2 ^ 50)%Z -> total_abs (products l) <= bpow radix2 1000 ->
  finite (sum_fold_f64 l) /\
  Rabs (val (sum_fold_f64 l) - total (products l)) <=
    ((1 + u) ^ S (length l) - 1) * total_abs (products l) + (1 + u) ^ length l * (INR (length l) * eta).
Proof. exact (sum_fold_f64_err_pow l). Qed.
Print Assumptions C12_f_sum_accuracy_pow.

(* on the grid: integer values and counts with sum |v w| <= 2^53 are summed exactly (any number of bins) *)
Theorem C12_f_sum_exact_on_grid (zl : list (Z * Z)) :
  Forall (fun zz => (Z.abs (fst zz) <= 2 ^ 53 /\ Z.abs (snd zz) <= 2 ^ 53)%Z) zl ->
  (fold_right (fun z a => Z.abs z + a) 0 (map (fun zz => fst zz * snd zz) zl) <= 2 ^ 53)%Z ->
  let r := sum_fold_f64 (map (fun zz => (f_of_int (fst zz), f_of_int (snd zz))) zl) in
  finite r /\ val r = IZR (fold_right Z.add 0%Z (map (fun zz => (fst zz * snd zz)%Z) zl)).
Proof. exact (sum_fold_f64_exact_int zl). Qed.
Print Assumptions C12_f_sum_exact_on_grid.

(* ------------------------------------------------------------------ *)
(* C10: NewDDSketchWithExactSummaryStatisticsFromData                   *)
(* ------------------------------------------------------------------ *)
(* refused exactly when  sketch.IsEmpty() != (summaryStatistics.Count() == 0)  (IsEmpty of the *DDSketch argument:
   zero count 0 and both stores empty); accepted: same mapping, stores and zero count, the given statistics *)
Theorem C10_from_data_spec (s : sketch) (t : summary) :
  (sk_from_data s t = None <-> plain_is_empty s <> feq (su_count t) f64_zero) /\
  (forall s', sk_from_data s t = Some s' ->
     sk_map s' = sk_map s /\ sk_pos s' = sk_pos s /\ sk_neg s' = sk_neg s /\ sk_zero s' = sk_zero s /\
     sk_stats s' = Some t) /\
  (plain_is_empty s = feq (su_count t) f64_zero -> sk_from_data s t = Some (with_stats s (Some t))).
Proof. exact (sk_from_data_spec s t). Qed.
Print Assumptions C10_from_data_spec.

(* for a sketch without statistics (what the constructor is given) that IsEmpty is the model's sk_is_empty *)
Theorem C10_from_data_plain_is_empty (s : sketch) : sk_stats s = None -> sk_is_empty s = plain_is_empty s.
Proof. exact (plain_is_empty_no_stats s). Qed.
Print Assumptions C10_from_data_plain_is_empty.

(* the accepted sketch reports empty (through its statistics) exactly when the argument was empty *)
Theorem C10_from_data_is_empty (s s' : sketch) (t : summary) : sk_from_data s t = Some s' ->
  sk_is_empty s' = plain_is_empty s /\ plain_is_empty s' = plain_is_empty s.
Proof. exact (sk_from_data_is_empty s s' t). Qed.
Print Assumptions C10_from_data_is_empty.

(* ------------------------------------------------------------------ *)
(* examples                                                            *)
(* ------------------------------------------------------------------ *)
Definition y_1p5 : f64 := f64_of_bits 0x3FF8000000000000.         (* 1.5 *)
Definition y_two : f64 := f64_of_bits 0x4000000000000000.         (* 2 *)
Definition y_mq : f64 := f64_of_bits 0xBFD0000000000000.          (* -0.25 *)
Definition y_four : f64 := f64_of_bits 0x4010000000000000.        (* 4 *)
Definition y_1e16 : f64 := f64_of_bits 0x4341C37937E08000.        (* 1e16, ulp = 2 *)
Definition y_one : f64 := f64_of_bits 0x3FF0000000000000.         (* 1 *)
Definition y_third : f64 := f64_of_bits 0x3FD5555555555555.       (* 0.333... *)
Definition y_sub : f64 := f64_of_bits 0x0000000000000003.         (* 3 * 2^-1074, subnormal *)

(* 1.5*2 - 0.25*4 + 1e16*1 = 1e16 + 2: small bins first, exact *)
Definition l_small_first : list (f64 * f64) := [(y_1p5, y_two); (y_mq, y_four); (y_1e16, y_one)].
(* the same bins, the large one first: 1e16 + 3 rounds to 1e16 + 4 (tie to even), 1e16 + 4 - 1 again: off by one ulp *)
Definition l_large_first : list (f64 * f64) := [(y_1e16, y_one); (y_1p5, y_two); (y_mq, y_four)].

Example C12_f_sum_example :
  bits_of_f64 (sum_fold_f64 l_small_first) = 0x4341C37937E08001%N /\
  bits_of_f64 (sum_fold_f64 l_large_first) = 0x4341C37937E08002%N.
Proof. vm_compute. split; reflexivity. Qed.

(* the premises of the accuracy theorem are satisfiable by non-trivial data (mixed signs, a subnormal product, a
   non-dyadic value); the example is the theorem's conclusion for that data *)
Definition l_mixed : list (f64 * f64) :=
  [(y_third, y_four); (y_1e16, y_one); (y_sub, y_third); (y_mq, y_third); (y_1p5, y_two)].

Example C12_f_sum_accuracy_premises :
  finite (sum_fold_f64 l_mixed) /\
  Rabs (val (sum_fold_f64 l_mixed) - total (products l_mixed)) <=
    (5 + 1) * u * (1 + (5 + 1) * u) * total_abs (products l_mixed) + 2 * 5 * eta.
Proof.
  destruct (pairs_small_450 l_mixed) as (F & B); [vm_compute; reflexivity|vm_compute; discriminate|].
  destruct (C12_f_sum_accuracy l_mixed F) as (Ff & H).
  - vm_compute. discriminate.
  - eapply Rle_trans; [exact B|]. apply bpow_le. lia.
  - replace (INR (length l_mixed)) with 5 in H by (unfold l_mixed; cbn [length INR]; lra). split; [exact Ff|exact H].
Qed.

(* exact integers: 3*2 - 7*1 + 2^40*5 + 1*1 *)
Example C12_f_sum_exact_example :
  val (sum_fold_f64 (map (fun zz => (f_of_int (fst zz), f_of_int (snd zz))) [(3, 2); (-7, 1); (2 ^ 40, 5); (1, 1)]%Z))
  = IZR 5497558138880.
Proof.
  destruct (C12_f_sum_exact_on_grid [(3, 2); (-7, 1); (2 ^ 40, 5); (1, 1)]%Z) as (_ & H).
  - repeat constructor; vm_compute; discriminate.
  - vm_compute. discriminate.
  - exact H.
Qed.

(* the refusal rule on a concrete sketch: an empty sketch is accepted with fresh statistics and refused with the
   statistics of one value *)
Definition sk_ex : sketch := sk_new {| mk_kind := 0; mk_gamma := y_1p5; mk_off := f64_zero |} KDense KSparse false.
Example C10_from_data_example :
  (match sk_from_data sk_ex su_new with Some s' => sk_is_empty s' | None => false end) = true /\
  (match sk_from_data sk_ex (su_add su_new y_1p5 y_one) with Some _ => false | None => true end) = true.
Proof. vm_compute. split; reflexivity. Qed.
