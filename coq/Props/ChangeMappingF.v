(* Props/ChangeMappingF — C17, change of mapping / unit at the float level: [changeStoreMapping]
   (ddsketch/ddsketch.go) transcribed ONCE over an abstract arithmetic (SK.Sketch.ChangeMappingG) and
   instantiated on exact rationals (= the ideal model of Props/ChangeMapping.v) and on Flocq binary64 with
   Go's math.Max / math.Min (= the model executed in lockstep against the implementation: instruction
   `kchtrace` compares every AddWithCount call, index and weight, bit for bit).
   Statements only; proofs: SK.Sketch.ChangeMappingGProofs.

   Reading aid (plain definitions of SK.Sketch.ChangeMappingG, unfold them to read):
     carith T                    the arithmetic used: c_mul c_sub c_div c_max c_min c_ltb (x < y) c_le0 (x <= 0)
     g_isect A inLow inHigh outLow outHigh   = c_sub (c_min outHigh inHigh) (c_max outLow inLow)      intersectionSize
     g_share A inSize isect c                = c_mul (c_div isect inSize) c                            proportion*count
     g_skips A guard isect                   = guard && c_le0 isect                                    the `continue`
     g_adds_loop T A lower2 guard fuel inLow inHigh inSize c out
                                 the for loop started at outIndex = out: the list of (outIndex, weight) passed to
                                 AddWithCount, in call order; one unit of fuel per evaluation of the loop
                                 condition; None = fuel exhausted.  guard = true is the code of /repo (commit
                                 e1377b7), guard = false the code before it
     g_bin_adds T A lower1 lower2 index2 scale guard fuel i c
                                 the ForEach callback for the source bin (i, c):
                                 inLow = lower1 i * scale, inHigh = lower1 (i+1) * scale, inSize = inHigh - inLow,
                                 loop started at index2 inLow
     g_store_adds … fuel_of src  all the calls of changeStoreMapping for the source bins src (fuel_of i = fuel for bin i)
     gx_*                        the instance on Qc (qmax/qmin of the ideal model, fuel = bin_fuel of the ideal model)
     cmf_adds_loop, cmf_bin_adds, cmf_store_adds
                                 the instance on binary64: fmul fsub fdiv, go_max, go_min, flt, fun x => fle x 0;
                                 fuel of a source bin = Index(inHigh) - Index(inLow) + 4, refused above 100000
     cmf_store L m1 m2 scale guard src      the same over the bit-exact mappings gm_lower / gm_index of Mapping/Glue.v
     go_max, go_min              Go's math.Max / math.Min (special cases of src/math/dim.go: +-Inf, NaN, signed zeros)
   Floats: [finite x] = neither NaN nor an infinity; [val x] = the real number x denotes; comparisons [flt] (<),
   [fle] (<=), [feq] (==) are IEEE: false as soon as an operand is NaN. *)
From Coq Require Import Bool NArith ZArith QArith Qcanon Reals List Sorted.
From Flocq Require Import Core.Core IEEE754.BinarySingleNaN IEEE754.Binary IEEE754.Bits.
From SK Require Import Base.Prelude Base.F64 Mapping.Glue Spec.Bins Sketch.ChangeMapping Sketch.ChangeMappingG Sketch.ChangeMappingGProofs.
Import ListNotations.
Local Open Scope Z_scope.

Local Notation finite x := (is_finite 53 1024 x = true).
Local Notation val x := (B2R 53 1024 x).

(* ------------------------------------------------------------------ *)
(** * a. the exact instance of the skeleton is the ideal model *)

(** loop, source bin and store: the generic transcription instantiated on Qc computes, for every fuel and every
    input, exactly [adds_loop] / [bin_adds] / [store_adds] of Sketch/ChangeMapping.v.  Every theorem of
    Props/ChangeMapping.v is therefore a theorem about the skeleton that also runs, on floats, against the code. *)
Theorem C17_generic_exact_is_ideal :
  (forall (lower2 : Z -> Qc) (guard : bool) (fuel : nat) (inLow inHigh : Qc) (c : W) (out : Z),
     gx_adds_loop lower2 guard fuel inLow inHigh (wsub inHigh inLow) c out = adds_loop lower2 guard fuel inLow inHigh c out) /\
  (forall (lower1 lower2 : Z -> Qc) (index2 : Qc -> Z) (scale : Qc) (guard : bool) (fuel : nat) (i : Z) (c : W),
     gx_bin_adds lower1 lower2 index2 scale guard fuel i c = bin_adds lower1 lower2 index2 scale guard fuel i c) /\
  (forall (lower1 lower2 : Z -> Qc) (index2 : Qc -> Z) (scale : Qc) (guard : bool) (src : list (Z * W)),
     gx_store_adds lower1 lower2 index2 scale guard src = store_adds lower1 lower2 index2 scale guard src).
Proof. exact gx_is_ideal. Qed.
Print Assumptions C17_generic_exact_is_ideal.

(** an ideal theorem read on the skeleton: under the guard the exact instance emits positive weights only *)
Theorem C17_generic_exact_no_negative_bin_adds :
  forall (lower1 lower2 : Z -> Qc) (index2 : Qc -> Z) (scale : Qc) (fuel : nat) (i : Z) (c : W) (l : list (Z * W)),
  (w0 < c)%Qc -> gx_bin_adds lower1 lower2 index2 scale true fuel i c = Some l ->
  Forall (fun kw => (w0 < snd kw)%Qc) l.
Proof. exact gx_bin_adds_pos. Qed.
Print Assumptions C17_generic_exact_no_negative_bin_adds.

(* ------------------------------------------------------------------ *)
(** * b. binary64: under the guard no weight passed to AddWithCount is negative or NaN *)

(** The loop of one source bin.  Premises: the scaled source bounds, their difference and the count are finite,
    the count is >= 0.  NO premise on the order of the bounds, on Index, or on the monotony of LowerBound.
    Conclusion, for every call (j, w) whose target bin's upper bound LowerBound(j+1) is not NaN: w is a finite
    float with 0 <= w <= count (so neither negative nor NaN; w may be +0 by underflow of the quotient).
    Each premise is needed: count = +Inf with an underflowing quotient gives 0*Inf = NaN; an overflowing
    inHigh - inLow with an overflowing intersection gives Inf/Inf = NaN; LowerBound(j+1) = NaN makes the
    intersection NaN, which the test `intersectionSize <= 0` lets through. *)
Theorem C17_float_no_negative_weight :
  forall (lower2 : Z -> f64) (fuel : nat) (inLow inHigh c : f64) (out : Z) (l : list (Z * f64)),
  finite inLow -> finite inHigh -> finite (fsub inHigh inLow) -> finite c -> fle f64_zero c = true ->
  cmf_adds_loop lower2 true fuel inLow inHigh (fsub inHigh inLow) c out = Some l ->
  Forall (fun jw => f_is_nan (lower2 (fst jw + 1)) = false ->
                    finite (snd jw) /\ fle f64_zero (snd jw) = true /\ fle (snd jw) c = true) l.
Proof. exact cmf_loop_weights. Qed.
Print Assumptions C17_float_no_negative_weight.

(** one source bin (i, c), as the ForEach callback computes it *)
Theorem C17_float_no_negative_weight_bin :
  forall (lower1 lower2 : Z -> f64) (index2 : f64 -> Z) (scale : f64) (fuel : nat) (i : Z) (c : f64) (l : list (Z * f64)),
  let inLow := fmul (lower1 i) scale in
  let inHigh := fmul (lower1 (i + 1)) scale in
  finite inLow -> finite inHigh -> finite (fsub inHigh inLow) -> finite c -> fle f64_zero c = true ->
  cmf_bin_adds lower1 lower2 index2 scale true fuel i c = Some l ->
  Forall (fun jw => f_is_nan (lower2 (fst jw + 1)) = false ->
                    finite (snd jw) /\ fle f64_zero (snd jw) = true /\ fle (snd jw) c = true) l.
Proof. exact cmf_bin_weights. Qed.
Print Assumptions C17_float_no_negative_weight_bin.

(** non-negative scaled bounds (every index mapping of the library, positive scale): their difference cannot
    overflow, the premise on inSize disappears *)
Theorem C17_float_no_negative_weight_nonneg_bounds :
  forall (lower1 lower2 : Z -> f64) (index2 : f64 -> Z) (scale : f64) (fuel : nat) (i : Z) (c : f64) (l : list (Z * f64)),
  let inLow := fmul (lower1 i) scale in
  let inHigh := fmul (lower1 (i + 1)) scale in
  finite inLow -> finite inHigh -> fle f64_zero inLow = true -> fle f64_zero inHigh = true ->
  finite c -> fle f64_zero c = true ->
  cmf_bin_adds lower1 lower2 index2 scale true fuel i c = Some l ->
  Forall (fun jw => f_is_nan (lower2 (fst jw + 1)) = false ->
                    finite (snd jw) /\ fle f64_zero (snd jw) = true /\ fle (snd jw) c = true) l.
Proof. exact cmf_bin_weights_nonneg. Qed.
Print Assumptions C17_float_no_negative_weight_nonneg_bounds.

(** a whole store (the executed instance, with its own fuel) *)
Theorem C17_float_no_negative_weight_store :
  forall (lower1 lower2 : Z -> f64) (index2 : f64 -> Z) (scale : f64) (src l : list (Z * f64)),
  Forall (fun ic => let inLow := fmul (lower1 (fst ic)) scale in
                    let inHigh := fmul (lower1 (fst ic + 1)) scale in
                    finite inLow /\ finite inHigh /\ finite (fsub inHigh inLow) /\
                    finite (snd ic) /\ fle f64_zero (snd ic) = true) src ->
  cmf_store_adds lower1 lower2 index2 scale true src = Some l ->
  Forall (fun jw => f_is_nan (lower2 (fst jw + 1)) = false -> finite (snd jw) /\ fle f64_zero (snd jw) = true) l.
Proof. exact cmf_store_weights. Qed.
Print Assumptions C17_float_no_negative_weight_store.

(** the premises are satisfiable: base-2 bounds 2^k on both sides, scale 1.001 (0x3ff004189374bc6a), source bin
    (1, 1.0), an Index answering one bin too low just above the edge 2; the repaired loop makes the calls
    (1, 0.9980019980019982) and (2, 0.001998001998001778) *)
Theorem C17_float_no_negative_weight_example :
  let inLow := fmul (exf_lower 1) exf_scale in
  let inHigh := fmul (exf_lower 2) exf_scale in
  is_finite 53 1024 inLow = true /\ is_finite 53 1024 inHigh = true /\ is_finite 53 1024 (fsub inHigh inLow) = true /\
  is_finite 53 1024 f64_one = true /\ fle f64_zero f64_one = true /\
  bits_of_adds (cmf_bin_adds exf_lower exf_lower exf_index_off exf_scale true 6 1 f64_one) =
    Some [(1, 4607164422397910035%N); (2, 4566753501465799841%N)] /\
  f_is_nan (exf_lower 2) = false /\ f_is_nan (exf_lower 3) = false.
Proof. exact exf_hyps. Qed.
Print Assumptions C17_float_no_negative_weight_example.

(* ------------------------------------------------------------------ *)
(** * c. binary64: under the guard every call overlaps the scaled source range, in floats *)

Theorem C17_float_overlap :
  forall (lower1 lower2 : Z -> f64) (index2 : f64 -> Z) (scale : f64) (fuel : nat) (i : Z) (c : f64) (l : list (Z * f64)),
  let inLow := fmul (lower1 i) scale in
  let inHigh := fmul (lower1 (i + 1)) scale in
  finite inLow -> finite inHigh ->
  cmf_bin_adds lower1 lower2 index2 scale true fuel i c = Some l ->
  Forall (fun jw => flt (lower2 (fst jw)) inHigh = true /\
                    (f_is_nan (lower2 (fst jw + 1)) = false ->
                     flt (go_max (lower2 (fst jw)) inLow) (go_min (lower2 (fst jw + 1)) inHigh) = true)) l.
Proof. exact cmf_bin_overlap. Qed.
Print Assumptions C17_float_overlap.

(** a target bin that only touches the source range (LowerBound(out) == inHigh) is skipped: with the guard,
    `<=` instead of `<` in the loop condition would make the same calls (the differential run confirms it) *)
Theorem C17_float_touching_bin_skipped :
  forall inLow inHigh outLow outHigh : f64,
  finite inLow -> finite inHigh -> finite outLow -> feq outLow inHigh = true -> f_is_nan outHigh = false ->
  fle (g_isect f64 f64_arith inLow inHigh outLow outHigh) f64_zero = true.
Proof. exact cmf_touching_bin_skipped. Qed.
Print Assumptions C17_float_touching_bin_skipped.

(* ------------------------------------------------------------------ *)
(** * d. the guard is needed: the legacy loop refuted on concrete floats *)

(** all the premises of b. hold, and the legacy loop (guard = false) passes a negative weight to AddWithCount *)
Theorem C17_float_guard_needed_refuted :
  exists (lower1 lower2 : Z -> f64) (index2 : f64 -> Z) (scale : f64) (fuel : nat) (i : Z) (c : f64) (l : list (Z * f64)),
    let inLow := fmul (lower1 i) scale in
    let inHigh := fmul (lower1 (i + 1)) scale in
    (is_finite 53 1024 inLow = true /\ is_finite 53 1024 inHigh = true /\ is_finite 53 1024 (fsub inHigh inLow) = true /\
     is_finite 53 1024 c = true /\ fle f64_zero c = true /\ (forall j, -8 <= j <= 8 -> f_is_nan (lower2 j) = false)) /\
    cmf_bin_adds lower1 lower2 index2 scale false fuel i c = Some l /\
    Exists (fun jw => flt (snd jw) f64_zero = true) l.
Proof. exact exf_legacy_refuted. Qed.
Print Assumptions C17_float_guard_needed_refuted.

(** the witness, call by call (weights as IEEE bit patterns): AddWithCount(0, -0.000999000999000889) comes first *)
Theorem C17_float_guard_needed_trace :
  bits_of_adds (cmf_bin_adds exf_lower exf_lower exf_index_off exf_scale false 6 1 f64_one) =
    Some [(0, 13785621938693205153%N); (1, 4607164422397910035%N); (2, 4566753501465799841%N)].
Proof. exact exf_legacy_negative. Qed.
Print Assumptions C17_float_guard_needed_trace.

(** D6 itself, replayed inside Coq on the bit-exact logarithmic mapping (Mapping/Glue.v): NewLogarithmicMapping(0.01)
    on both sides, source bin (-186, 1.0), scaleFactor 0x3feebec6cea31233; math.Log / math.Exp are the finite table
    [d6_libm] of the answers Go's runtime gave for the arguments this computation asks (NaN elsewhere).
    Legacy: AddWithCount(-189, 0xbd009c6d592298a0 = -7.4e-15), AddWithCount(-188, 1.0); repaired: the second only.
    The implementation gives these very lines (`kchtrace`, tree before / after e1377b7). *)
Theorem C17_float_D6_replayed :
  d6_trace false = Some [(-189, 13619057266629187744%N); (-188, 4607182418800017408%N)] /\
  d6_trace true = Some [(-188, 4607182418800017408%N)].
Proof. exact (conj d6_legacy d6_repaired). Qed.
Print Assumptions C17_float_D6_replayed.

Theorem C17_float_D6_negative_weight :
  exists (m : gmap) (l : list (Z * f64)),
    with_accuracy d6_libm MLog d6_alpha = Some m /\
    cmf_store d6_libm m m d6_scale false [(-186, f64_one)] = Some l /\
    Exists (fun jw => flt (snd jw) f64_zero = true) l.
Proof. exact d6_negative_weight. Qed.
Print Assumptions C17_float_D6_negative_weight.

(* ------------------------------------------------------------------ *)
(** * e. the skeleton, whatever the arithmetic *)

(** at most fuel - 1 calls per source bin, at strictly increasing target indexes (a target bin receives at most
    one call per source bin), each within [out, out + fuel - 1), each having passed the loop condition and the guard,
    each carrying the share of its intersection *)
Theorem C17_generic_calls :
  forall (T : Type) (A : carith T) (lower2 : Z -> T) (guard : bool) (fuel : nat) (inLow inHigh inSize c : T) (out : Z)
         (l : list (Z * T)),
  g_adds_loop T A lower2 guard fuel inLow inHigh inSize c out = Some l ->
  (length l < fuel)%nat /\
  StronglySorted Z.lt (map fst l) /\
  Forall (fun jw =>
            let isect := g_isect T A inLow inHigh (lower2 (fst jw)) (lower2 (fst jw + 1)) in
            out <= fst jw < out + Z.of_nat fuel - 1 /\
            c_ltb A (lower2 (fst jw)) inHigh = true /\
            g_skips T A guard isect = false /\
            snd jw = g_share T A inSize isect c) l.
Proof.
  intros T A lower2 guard fuel inLow inHigh inSize c out l H.
  exact (conj (g_adds_loop_length T A lower2 guard fuel inLow inHigh inSize c out l H)
        (conj (g_adds_loop_sorted T A lower2 guard fuel inLow inHigh inSize c out l H)
              (g_adds_loop_emitted T A lower2 guard fuel inLow inHigh inSize c out l H))).
Qed.
Print Assumptions C17_generic_calls.

(** the repaired loop makes exactly the calls of the legacy loop whose intersection is not <= 0, same weights *)
Theorem C17_generic_guard_is_filter :
  forall (T : Type) (A : carith T) (lower2 : Z -> T) (fuel : nat) (inLow inHigh inSize c : T) (out : Z) (l : list (Z * T)),
  g_adds_loop T A lower2 false fuel inLow inHigh inSize c out = Some l ->
  g_adds_loop T A lower2 true fuel inLow inHigh inSize c out =
  Some (filter (fun jw => negb (c_le0 A (g_isect T A inLow inHigh (lower2 (fst jw)) (lower2 (fst jw + 1))))) l).
Proof. exact g_adds_loop_guard_filter. Qed.
Print Assumptions C17_generic_guard_is_filter.

(** an answer does not depend on the fuel once there is enough *)
Theorem C17_generic_more_fuel :
  forall (T : Type) (A : carith T) (lower2 : Z -> T) (guard : bool) (fuel : nat) (inLow inHigh inSize c : T) (out : Z)
         (l : list (Z * T)),
  g_adds_loop T A lower2 guard fuel inLow inHigh inSize c out = Some l ->
  forall fuel' : nat, (fuel <= fuel')%nat -> g_adds_loop T A lower2 guard fuel' inLow inHigh inSize c out = Some l.
Proof. exact g_adds_loop_more_fuel. Qed.
Print Assumptions C17_generic_more_fuel.

(** Go's math.Max / math.Min on finite operands: one of the operands, the real maximum / minimum *)
Theorem C17_go_max_finite :
  forall x y : f64, finite x -> finite y ->
  finite (go_max x y) /\ val (go_max x y) = Rmax (val x) (val y) /\ (go_max x y = x \/ go_max x y = y).
Proof. exact go_max_fin. Qed.
Print Assumptions C17_go_max_finite.

Theorem C17_go_min_finite :
  forall x y : f64, finite x -> finite y ->
  finite (go_min x y) /\ val (go_min x y) = Rmin (val x) (val y) /\ (go_min x y = x \/ go_min x y = y).
Proof. exact go_min_fin. Qed.
Print Assumptions C17_go_min_finite.
