(* C06 / C07 / C08: the binary wire format of DDSketch (ddsketch/encoding/flag.go, ddsketch.go Encode /
   decodeAndMergeWith, store.go DecodeAndMergeWith, sparse.go Encode).
   Statements only; the proofs are in Wire/WireProofs.v. Vocabulary (defined there):
     wire_f x = (x+1)-1                what the varfloat codec does to a weight
     wf_stream                         list lengths < 2^64, mapping kind < 64, deltas/first/stride in int64
     wire_stream st                    st with every varfloat-carried weight sent through wire_f
     exact_stream / stable_stream      every such weight satisfies wire_f w = w / wire_f (wire_f w) = wire_f w
     store_refines abs good okw step   the abstract store interface (st_addw / st_add refine [step] on [abs])
     maps_chain cur st                 every mapping block of st is supported (kind 0,1,3, gamma > 1) and
                                       Equals the mapping in force before it
     sp_ds mp p n z                    a plain (no exact statistics) receiver with sparse stores p, n
   Only the four axioms of the stdlib real numbers (through Flocq) appear. *)
From Coq Require Import Bool NArith ZArith List.
From Flocq Require Import IEEE754.BinarySingleNaN IEEE754.Binary IEEE754.Bits.
From SK Require Import Codec.Codec.
From SK Require Codec.Varfloat.
From SK Require Import Base.Prelude Base.F64 Spec.Bins Spec.BinsProofs Store.Any Stat.Summary Sketch.Sketch.
From SK Require Import Wire.Grammar Wire.Wire Wire.WireProofs.
Import ListNotations.
Close Scope Z_scope.
Close Scope N_scope.
Open Scope nat_scope.
Open Scope list_scope.

(* ================================================================== *)
(* C07: the reference parser inverts serialisation; the implementation *)
(*      accepts the documented grammar; the encoders emit it           *)
(* ================================================================== *)
Theorem C07_parse_block : forall (b : block) (rest : list byte), wf_block b ->
  parse_block (ser_block b ++ rest) = Some (wire_block b, rest).
Proof. exact parse_block_ser. Qed.
Print Assumptions C07_parse_block.

(* G1. Blocks in any order, repeated blocks and indexes, any stride: st is arbitrary. The parser returns
   the weights the codec carries, (w+1)-1 *)
Theorem C07_parse_serialize : forall st : stream, wf_stream st ->
  ref_parse (serialize st) = Some (wire_stream st).
Proof. exact parse_serialize. Qed.
Print Assumptions C07_parse_serialize.

Theorem C07_parse_serialize_exact : forall st : stream, wf_stream st -> exact_stream st ->
  ref_parse (serialize st) = Some st.
Proof. exact parse_serialize_exact. Qed.
Print Assumptions C07_parse_serialize_exact.

Theorem C07_ref_decode_serialize_wire : forall st : stream, wf_stream st ->
  ref_decode (serialize st) = Some (sem (wire_stream st)).
Proof. exact ref_decode_serialize_wire. Qed.
Print Assumptions C07_ref_decode_serialize_wire.

Theorem C07_ref_decode_serialize : forall st : stream, wf_stream st -> stable_stream st ->
  ref_decode (serialize st) = Some (sem st).
Proof. exact ref_decode_serialize. Qed.
Print Assumptions C07_ref_decode_serialize.

(* the bins a decoder computes from a parsed block are the bins the grammar gives to the serialised block *)
Theorem C07_parsed_bins : forall bb : bin_block, bins_of_block_w f2q (wire_bins bb) = bins_of_block bb.
Proof. exact raw_bins_wire. Qed.
Print Assumptions C07_parsed_bins.

(* G3, bins level, over the abstract store interface: store.go DecodeAndMergeWith on the body of a block
   (the implementation's subflag is the documented one shifted by two bits) *)
Theorem C07_generic_decoder_accepts_bins :
  forall (abs : store -> bins) (good : store -> Prop) (okw : W -> Prop) (step : bins -> Z -> W -> bins)
         (bb : bin_block) (s : store),
  store_refines abs good okw step -> wf_bins bb -> good s -> okw_bins okw bb ->
  exists s', (forall rest, dec_bins_generic s (fst (ser_bins bb) * 4)%N (snd (ser_bins bb) ++ rest) = DOk s' rest)
             /\ good s' /\ abs s' = steps step (abs s) (bins_of_block bb).
Proof. exact generic_dec_bins. Qed.
Print Assumptions C07_generic_decoder_accepts_bins.

Theorem C07_sparse_store_refines : store_refines ss_bins is_sparse any_w badd0.
Proof. exact sparse_refines. Qed.
Print Assumptions C07_sparse_store_refines.

Theorem C07_sparse_decoder_accepts_bins : forall (bb : bin_block) (m : bins) (rest : list byte), wf_bins bb ->
  dec_bins_generic (SS m) (fst (ser_bins bb) * 4)%N (snd (ser_bins bb) ++ rest)
  = DOk (SS (bmerge_list m (bins_of_block bb))) rest.
Proof. exact sparse_dec_bins. Qed.
Print Assumptions C07_sparse_decoder_accepts_bins.

(* G3, block loop, over the abstract store interface (plain decoder, repaired: fD2) *)
Theorem C07_generic_decoder_accepts_stream :
  forall (abs : store -> bins) (good : store -> Prop) (okw : W -> Prop) (step : bins -> Z -> W -> bins)
         (wx : wfixes) (st : stream) (d : dsketch),
  store_refines abs good okw step -> fD2 wx = true ->
  wf_stream st -> okw_stream okw st -> maps_chain (ds_map d) st -> ds_good good d ->
  last_mapid (ds_map d) st <> None ->
  exists d', dec_sketch_into wx d (serialize st) = DOk d' [] /\
             ds_good good d' /\
             abs (ds_pos d') = steps step (abs (ds_pos d)) (stream_pos_bins st) /\
             abs (ds_neg d') = steps step (abs (ds_neg d)) (stream_neg_bins st) /\
             ds_zero d' = fold_left wadd (stream_zero st) (ds_zero d) /\
             ds_map d' = last_mapid (ds_map d) st.
Proof. exact generic_dec_sketch. Qed.
Print Assumptions C07_generic_decoder_accepts_stream.

Theorem C07_sparse_decoder_accepts_stream :
  forall (wx : wfixes) (st : stream) (mp : option mapid) (p n : bins) (z : W), fD2 wx = true ->
  wf_stream st -> maps_chain mp st -> last_mapid mp st <> None ->
  dec_sketch_into wx (sp_ds mp p n z) (serialize st)
  = DOk (sp_ds (last_mapid mp st) (bmerge_list p (stream_pos_bins st)) (bmerge_list n (stream_neg_bins st))
               (fold_left wadd (stream_zero st) z)) [].
Proof. exact sparse_dec_sketch. Qed.
Print Assumptions C07_sparse_decoder_accepts_stream.

(* statistics blocks are skipped by the plain decoder: they do not appear in the result above *)
Theorem C07_sparse_decode_fresh : forall (wx : wfixes) (st : stream), fD2 wx = true ->
  wf_stream st -> maps_chain None st -> last_mapid None st <> None ->
  exists d, dec_sketch_into wx (ds_fresh None KSparse false) (serialize st) = DOk d []
            /\ ds_pos d = SS (c_pos (sem st)) /\ ds_neg d = SS (c_neg (sem st))
            /\ ds_zero d = c_zero (sem st) /\ option_map mapid_triple (ds_map d) = c_map (sem st)
            /\ ds_stats d = None.
Proof. exact sparse_decode_fresh. Qed.
Print Assumptions C07_sparse_decode_fresh.

Theorem C07_sparse_decode_fresh_abs : forall (wx : wfixes) (st : stream), fD2 wx = true ->
  wf_stream st -> maps_chain None st -> last_mapid None st <> None -> nonneg_stream st ->
  exists d, dec_sketch_into wx (ds_fresh None KSparse false) (serialize st) = DOk d []
            /\ st_abs (ds_pos d) = c_pos (sem st) /\ st_abs (ds_neg d) = c_neg (sem st)
            /\ ds_zero d = c_zero (sem st) /\ option_map mapid_triple (ds_map d) = c_map (sem st).
Proof. exact sparse_decode_fresh_abs. Qed.
Print Assumptions C07_sparse_decode_fresh_abs.

(* G4: SparseStore.Encode emits one IndexDeltasAndCounts block (nothing when empty), in visiting order l *)
Theorem C07_enc_sparse_grammar : forall (l : list (Z * W)) (neg : bool),
  enc_sparse l (ty_of neg) = serialize (sparse_blocks neg l).
Proof. exact enc_sparse_grammar. Qed.
Print Assumptions C07_enc_sparse_grammar.

Theorem C07_enc_sparse_ref_decode : forall l : list (Z * W), sparse_wire_ok l ->
  exists c, ref_decode (enc_sparse l ft_positive) = Some c /\ c_pos c = bins_of_list l /\ c_neg c = [].
Proof. exact enc_sparse_ref_decode. Qed.
Print Assumptions C07_enc_sparse_ref_decode.

Theorem C07_sparse_wire_ok_int32 : forall l : list (Z * W), (N.of_nat (length l) < W64)%N ->
  Forall (fun ic => idx_ok (fst ic)) l -> Forall (fun ic => wexact (snd ic)) l -> sparse_wire_ok l.
Proof. exact sparse_wire_ok_int32. Qed.
Print Assumptions C07_sparse_wire_ok_int32.

(* G4: DDSketch.Encode of a plain sketch with sparse stores *)
Theorem C07_enc_sketch_grammar : forall (s : sketch) (p n : bins) (omit : bool), plain_sparse s p n ->
  enc_sketch s omit = (s, serialize (sketch_stream (sk_map s) p n (sk_zero s) omit)).
Proof. exact enc_sketch_grammar. Qed.
Print Assumptions C07_enc_sketch_grammar.

Theorem C07_sketch_roundtrip : forall (wx : wfixes) (s : sketch) (p n : bins), fD2 wx = true ->
  plain_sparse s p n -> map_valid (sk_map s) -> sketch_wire_ok p n (sk_zero s) ->
  dec_sketch_into wx (ds_fresh None KSparse false) (snd (enc_sketch s false))
  = DOk (sp_ds (Some (sk_map s)) (bins_of_list p) (bins_of_list n) (sk_zero s)) [].
Proof. exact sketch_roundtrip. Qed.
Print Assumptions C07_sketch_roundtrip.

Theorem C07_sketch_roundtrip_canon : forall (wx : wfixes) (s : sketch) (p n : bins), fD2 wx = true ->
  plain_sparse s p n -> map_valid (sk_map s) -> sketch_wire_ok p n (sk_zero s) ->
  wf p = true -> pos p -> wf n = true -> pos n ->
  dec_sketch_into wx (ds_fresh None KSparse false) (snd (enc_sketch s false)) = DOk (ds_of_sketch s) [].
Proof. exact sketch_roundtrip_canon. Qed.
Print Assumptions C07_sketch_roundtrip_canon.

(* integer weights below 2^53 satisfy the exactness premises ([sparse_wire_ok], [sketch_wire_ok], [dense_wire_ok]) *)
Theorem C07_wexact_int : forall n : Z, (0 <= n < 9007199254740992)%Z -> wexact (w_of_Z n).
Proof. exact wexact_int. Qed.
Print Assumptions C07_wexact_int.

(* G4: DenseStore.Encode, both layouts ([c] = which one the size comparison picked); [minI <= maxI] holds for
   every non-empty store satisfying the representation invariant of Store/DenseProofs.v (inv_win) *)
Theorem C07_enc_dense_grammar : forall (d : dense) (neg : bool), (minI d <= maxI d)%Z ->
  exists c, enc_dense d (ty_of neg) = serialize (dense_blocks neg d c).
Proof. exact enc_dense_grammar. Qed.
Print Assumptions C07_enc_dense_grammar.

Theorem C07_enc_dense_ref_decode : forall d : dense, dense_wire_ok d -> is_empty d = false ->
  exists c, ref_decode (enc_dense d ft_positive) = Some c /\ c_pos c = bins_of_list (dense_cells d) /\ c_neg c = [].
Proof. exact enc_dense_ref_decode. Qed.
Print Assumptions C07_enc_dense_ref_decode.

Theorem C07_enc_dense_sparse_decode : forall (d : dense) (m : bins), dense_wire_ok d -> is_empty d = false ->
  exists f body, enc_dense d ft_positive = f :: body /\ flag_type f = ft_positive
                 /\ dec_bins (SS m) (flag_sub f) body = DOk (SS (bmerge_list m (dense_cells d))) [].
Proof. exact enc_dense_sparse_decode. Qed.
Print Assumptions C07_enc_dense_sparse_decode.

(* on ALL byte strings, well formed or not: store.go's generic decoder with a sparse receiver = the reference
   parser followed by the merge of the parsed bins; its only failure is io.EOF *)
Theorem C07_sparse_decoder_is_reference : forall (m : bins) (sub : N) (b : list byte),
  sub = SUB_BINS_IDC \/ sub = SUB_BINS_ID \/ sub = SUB_BINS_CC ->
  dec_bins_generic (SS m) (sub * 4)%N b =
  match parse_bins sub b with
  | Some (bb, r) => DOk (SS (bmerge_list m (bins_of_block_w f2q bb))) r
  | None => DErr EEof
  end.
Proof. exact sparse_dec_bins_agrees. Qed.
Print Assumptions C07_sparse_decoder_is_reference.

(* ================================================================== *)
(* C06: concatenation of encodings = merge                             *)
(* ================================================================== *)
Theorem C06_serialize_app : forall a b : stream, serialize (a ++ b) = serialize a ++ serialize b.
Proof. exact serialize_app. Qed.
Print Assumptions C06_serialize_app.

Theorem C06_sem_app : forall a b : stream, sem (a ++ b) = fold_left sem_block b (sem a).
Proof. exact sem_app. Qed.
Print Assumptions C06_sem_app.

Theorem C06_sem_app_bins : forall a b : stream,
  c_pos (sem (a ++ b)) = bmerge_list (c_pos (sem a)) (stream_pos_bins b) /\
  c_neg (sem (a ++ b)) = bmerge_list (c_neg (sem a)) (stream_neg_bins b) /\
  c_zero (sem (a ++ b)) = fold_left wadd (stream_zero b) (c_zero (sem a)) /\
  c_map (sem (a ++ b)) = last_mapping (c_map (sem a)) b.
Proof. exact sem_app_all. Qed.
Print Assumptions C06_sem_app_bins.

Theorem C06_ref_decode_concat : forall a b : stream,
  wf_stream a -> wf_stream b -> stable_stream a -> stable_stream b ->
  ref_decode (serialize a ++ serialize b) = Some (fold_left sem_block b (sem a)).
Proof. exact ref_decode_concat. Qed.
Print Assumptions C06_ref_decode_concat.

(* the implementation: decoding a ++ b = decoding b into the result of decoding a *)
Theorem C06_sparse_decode_concat :
  forall (wx : wfixes) (a b : stream) (mp : option mapid) (p n : bins) (z : W), fD2 wx = true ->
  wf_stream a -> wf_stream b -> maps_chain mp (a ++ b) -> last_mapid mp a <> None ->
  exists d1, dec_sketch_into wx (sp_ds mp p n z) (serialize a) = DOk d1 []
             /\ dec_sketch_into wx (sp_ds mp p n z) (serialize a ++ serialize b) = dec_sketch_into wx d1 (serialize b).
Proof. exact sparse_decode_concat. Qed.
Print Assumptions C06_sparse_decode_concat.

Theorem C06_sketch_decode_into :
  forall (wx : wfixes) (s : sketch) (p n : bins) (mp : option mapid) (p0 n0 : bins) (z0 : W), fD2 wx = true ->
  plain_sparse s p n -> map_valid (sk_map s) -> sketch_wire_ok p n (sk_zero s) ->
  match mp with Some m0 => map_equals m0 (sk_map s) = true | None => True end ->
  dec_sketch_into wx (sp_ds mp p0 n0 z0) (snd (enc_sketch s false))
  = DOk (sp_ds (Some (sk_map s)) (bmerge_list p0 p) (bmerge_list n0 n) (wadd z0 (sk_zero s))) [].
Proof. exact sketch_decode_into. Qed.
Print Assumptions C06_sketch_decode_into.

Theorem C06_decode_concat_merge :
  forall (wx : wfixes) (a : sketch) (pa na : bins) (b : sketch) (pb nb : bins), fD2 wx = true ->
  plain_sparse a pa na -> map_valid (sk_map a) -> sketch_wire_ok pa na (sk_zero a) ->
  plain_sparse b pb nb -> map_valid (sk_map b) -> sketch_wire_ok pb nb (sk_zero b) ->
  map_equals (sk_map a) (sk_map b) = true ->
  dec_sketch_into wx (ds_fresh None KSparse false) (snd (enc_sketch a false) ++ snd (enc_sketch b false))
  = DOk (sp_ds (Some (sk_map b)) (bmerge_list (bins_of_list pa) pb) (bmerge_list (bins_of_list na) nb)
               (wadd (sk_zero a) (sk_zero b))) [].
Proof. exact decode_concat_merge. Qed.
Print Assumptions C06_decode_concat_merge.

Theorem C06_encode_appends : forall (s : sketch) (p n : bins) (omit : bool) (buf : list byte), plain_sparse s p n ->
  fst (enc_sketch s omit) = s /\
  buf ++ snd (enc_sketch s omit) = buf ++ serialize (sketch_stream (sk_map s) p n (sk_zero s) omit).
Proof. exact encode_appends. Qed.
Print Assumptions C06_encode_appends.

(* ================================================================== *)
(* C08: truncated and malformed input                                  *)
(* ================================================================== *)
Theorem C08_block_truncation : forall (b : block) (p s : list byte), wf_block b ->
  ser_block b = p ++ s -> s <> [] -> p <> [] -> parse_block p = None.
Proof. exact block_truncation. Qed.
Print Assumptions C08_block_truncation.

Theorem C08_stream_truncation : forall (st : stream) (b : block) (p s : list byte), wf_stream st -> wf_block b ->
  ser_block b = p ++ s -> s <> [] -> p <> [] -> ref_parse (serialize st ++ p) = None.
Proof. exact stream_truncation. Qed.
Print Assumptions C08_stream_truncation.

Theorem C08_generic_bins_truncation :
  forall (abs : store -> bins) (good : store -> Prop) (okw : W -> Prop) (step : bins -> Z -> W -> bins)
         (bb : bin_block) (s : store) (p t : list byte),
  store_refines abs good okw step ->
  wf_bins bb -> good s -> okw_bins okw bb -> snd (ser_bins bb) = p ++ t -> t <> [] ->
  dec_bins_generic s (fst (ser_bins bb) * 4)%N p = DErr EEof.
Proof. exact generic_dec_bins_trunc. Qed.
Print Assumptions C08_generic_bins_truncation.

(* complete blocks, then a block cut strictly inside: io.EOF, never a panic (repaired code: fD3) *)
Theorem C08_generic_truncation :
  forall (abs : store -> bins) (good : store -> Prop) (okw : W -> Prop) (step : bins -> Z -> W -> bins)
         (wx : wfixes) (st : stream) (b : block) (d : dsketch) (p t : list byte),
  store_refines abs good okw step -> fD2 wx = true -> fD3 wx = true ->
  wf_stream st -> okw_stream okw st -> maps_chain (ds_map d) st -> ds_good good d ->
  wf_block b -> kind_ok_block b -> okw_block okw b ->
  ser_block b = p ++ t -> t <> [] -> p <> [] ->
  dec_sketch_into wx d (serialize st ++ p) = DErr EEof.
Proof. exact generic_truncation. Qed.
Print Assumptions C08_generic_truncation.

Theorem C08_sparse_truncation :
  forall (wx : wfixes) (st : stream) (b : block) (mp : option mapid) (p n : bins) (z : W) (pre t : list byte),
  fD2 wx = true -> fD3 wx = true ->
  wf_stream st -> maps_chain mp st -> wf_block b -> kind_ok_block b ->
  ser_block b = pre ++ t -> t <> [] -> pre <> [] ->
  dec_sketch_into wx (sp_ds mp p n z) (serialize st ++ pre) = DErr EEof.
Proof. exact sparse_truncation. Qed.
Print Assumptions C08_sparse_truncation.

(* a cut at a block boundary decodes the complete blocks: C07_sparse_decoder_accepts_stream on the prefix *)

(* any receiver, any tail: a flag byte that is none of the defined ones is refused *)
Theorem C08_unknown_flag : forall (wx : wfixes) (k : nat) (d : dsketch) (f : byte) (tl : list byte),
  fD3 wx = true -> ~ known_flag f ->
  exists e, dec_blocks wx (S k) d (f :: tl) = DErr e /\ (e = EUnknownFlag \/ e = EUnknownBins \/ e = EUnknownMapping).
Proof. exact unknown_flag. Qed.
Print Assumptions C08_unknown_flag.

Theorem C08_generic_mapping_mismatch :
  forall (abs : store -> bins) (good : store -> Prop) (okw : W -> Prop) (step : bins -> Z -> W -> bins)
         (wx : wfixes) (st : stream) (d : dsketch) (kd : N) (g o : f64) (m0 : mapid) (rest : list byte),
  store_refines abs good okw step -> fD2 wx = true ->
  wf_stream st -> okw_stream okw st -> maps_chain (ds_map d) st -> ds_good good d ->
  last_mapid (ds_map d) st = Some m0 ->
  kind_ok kd -> fle g f64_one = false -> map_equals m0 (map_of kd g o) = false ->
  dec_sketch_into wx d (serialize st ++ ser_block (BMapping kd g o) ++ rest) = DErr EMismatch.
Proof. exact generic_mapping_mismatch. Qed.
Print Assumptions C08_generic_mapping_mismatch.

Theorem C08_sparse_mapping_mismatch :
  forall (wx : wfixes) (st : stream) (mp : option mapid) (p n : bins) (z : W) (kd : N) (g o : f64) (m0 : mapid)
         (rest : list byte),
  fD2 wx = true -> wf_stream st -> maps_chain mp st -> last_mapid mp st = Some m0 ->
  kind_ok kd -> fle g f64_one = false -> map_equals m0 (map_of kd g o) = false ->
  dec_sketch_into wx (sp_ds mp p n z) (serialize st ++ ser_block (BMapping kd g o) ++ rest) = DErr EMismatch.
Proof. exact sparse_mapping_mismatch. Qed.
Print Assumptions C08_sparse_mapping_mismatch.

Theorem C08_generic_missing_mapping :
  forall (abs : store -> bins) (good : store -> Prop) (okw : W -> Prop) (step : bins -> Z -> W -> bins)
         (wx : wfixes) (st : stream) (d : dsketch),
  store_refines abs good okw step -> fD2 wx = true ->
  wf_stream st -> okw_stream okw st -> maps_chain (ds_map d) st -> ds_good good d ->
  last_mapid (ds_map d) st = None ->
  dec_sketch_into wx d (serialize st) = DErr EMissingMapping.
Proof. exact generic_missing_mapping. Qed.
Print Assumptions C08_generic_missing_mapping.

Theorem C08_sparse_missing_mapping : forall (wx : wfixes) (st : stream) (p n : bins) (z : W), fD2 wx = true ->
  wf_stream st -> Forall (fun b => match b with BMapping _ _ _ => False | _ => True end) st ->
  dec_sketch_into wx (sp_ds None p n z) (serialize st) = DErr EMissingMapping.
Proof. exact sparse_missing_mapping. Qed.
Print Assumptions C08_sparse_missing_mapping.

(* whatever the bytes, whichever variant of the code (repaired or not), with or without exact statistics *)
Theorem C08_decoder_total : forall (wx : wfixes) (d : dsketch) (b : list byte),
  ds_sparse d -> dec_sketch_into wx d b <> DPanic.
Proof. exact decoder_total. Qed.
Print Assumptions C08_decoder_total.

(* ================================================================== *)
(* Executable examples                                                 *)
(* ================================================================== *)
Definition fb (b : N) : f64 := f64_of_bits b.
Definition f_0 := fb 0.
Definition f_1 := fb 4607182418800017408.
Definition f_2 := fb 4611686018427387904.
Definition f_3 := fb 4613937818241073152.
Definition f_gamma := fb 4607272490792564818.    (* 1.02 *)
Definition f_gamma' := fb 4607632778762754458.   (* 1.1 *)
Definition wxT : wfixes := {| fD2 := true; fD3 := true |}.
Definition wxL : wfixes := {| fD2 := false; fD3 := true |}.     (* before the repair of D2 *)
Definition fresh : dsketch := ds_fresh None KSparse false.

(* zero count 2; bins 3 -> 1, 5 -> 2; the mapping last, so that every strict prefix is incomplete *)
Definition ex_st : stream :=
  [BZeroCount f_2; BStore false (IndexDeltasAndCounts [(3%Z, f_1); (2%Z, f_2)]); BMapping 0 f_gamma f_0].

Example C07_ex_bytes : serialize ex_st =
  [4; 3; 5; 2; 6; 2; 4; 3; 2; 82; 184; 30; 133; 235; 81; 240; 63; 0; 0; 0; 0; 0; 0; 0; 0]%N.
Proof. vm_compute. reflexivity. Qed.
Example C07_ex_parse : option_map (map block_sig) (ref_parse (serialize ex_st)) = Some (map block_sig ex_st).
Proof. vm_compute. reflexivity. Qed.
Example C07_ex_ref_decode : content_sig (ref_decode (serialize ex_st)) =
  Some ([(3%Z, 1%Q); (5%Z, 2%Q)], [], 2%Q, Some (0%N, 4607272490792564818%N, 0%N), ([], [], [], [])).
Proof. vm_compute. reflexivity. Qed.
Example C07_ex_decode : ds_sig (dec_sketch_into wxT fresh (serialize ex_st)) =
  inl ([(3%Z, 1%Q); (5%Z, 2%Q)], [], 2%Q, Some (0%N, 4607272490792564818%N, 0%N), []).
Proof. vm_compute. reflexivity. Qed.
(* decode (b ++ b) = merge *)
Example C06_ex_concat : ds_sig (dec_sketch_into wxT fresh (serialize ex_st ++ serialize ex_st)) =
  inl ([(3%Z, 2%Q); (5%Z, 4%Q)], [], 4%Q, Some (0%N, 4607272490792564818%N, 0%N), []).
Proof. vm_compute. reflexivity. Qed.
(* every strict prefix is refused, by the reference parser (unless cut at a block boundary: 0, 2, 8) and by
   the implementation (io.EOF inside a block, "missing index mapping" at a block boundary) *)
Example C08_ex_truncation_ref :
  forallb (fun k => match ref_parse (firstn k (serialize ex_st)) with
                    | None => negb (Nat.eqb k 0 || Nat.eqb k 2 || Nat.eqb k 8)
                    | Some _ => Nat.eqb k 0 || Nat.eqb k 2 || Nat.eqb k 8 end)
          (seq 0 (length (serialize ex_st))) = true.
Proof. vm_compute. reflexivity. Qed.
Example C08_ex_truncation_impl :
  forallb (fun k => match dec_sketch_into wxT fresh (firstn k (serialize ex_st)) with
                    | DErr EEof => negb (Nat.eqb k 0 || Nat.eqb k 2 || Nat.eqb k 8)
                    | DErr EMissingMapping => Nat.eqb k 0 || Nat.eqb k 2 || Nat.eqb k 8
                    | _ => false end)
          (seq 0 (length (serialize ex_st))) = true.
Proof. vm_compute. reflexivity. Qed.
(* all 256 flag bytes in front of an arbitrary-looking tail: known flags are exactly the 20 documented and
   supported ones; every other byte gives one of the three "unknown" errors *)
Definition known_flagb (f : N) : bool :=
  (((flag_type f =? 1) || (flag_type f =? 3)) && ((flag_sub f =? 4) || (flag_sub f =? 8) || (flag_sub f =? 12))
   || ((flag_type f =? 2) && ((N.shiftr f 2 =? 0) || (N.shiftr f 2 =? 1) || (N.shiftr f 2 =? 3)))
   || (f =? 4) || (f =? 160) || (f =? 132) || (f =? 136) || (f =? 140))%N.
Example C08_ex_unknown_flags :
  forallb (fun f => if known_flagb f then true else
                    match dec_sketch_into wxT fresh (f :: serialize ex_st) with
                    | DErr EUnknownFlag | DErr EUnknownBins | DErr EUnknownMapping => true
                    | _ => false end)
          (map N.of_nat (seq 0 256)) = true
  /\ length (filter known_flagb (map N.of_nat (seq 0 256))) = 14.
Proof. vm_compute. split; reflexivity. Qed.
Example C08_ex_mismatch :
  ds_sig (dec_sketch_into wxT fresh (serialize (ex_st ++ [BMapping 0 f_gamma' f_0]))) = inr (Some EMismatch).
Proof. vm_compute. reflexivity. Qed.
Example C08_ex_missing_mapping :
  ds_sig (dec_sketch_into wxT fresh (serialize (firstn 2 ex_st))) = inr (Some EMissingMapping).
Proof. vm_compute. reflexivity. Qed.

(* D2: a stream with the total count of an exact-statistics sketch. The repaired plain decoder skips the
   varfloat; the legacy one skipped 8 bytes and lost the framing *)
Definition ex_stats : stream := BCount f_3 :: BSum f_3 :: ex_st.
Example C07_ex_stats_skipped : ds_sig (dec_sketch_into wxT fresh (serialize ex_stats)) =
  inl ([(3%Z, 1%Q); (5%Z, 2%Q)], [], 2%Q, Some (0%N, 4607272490792564818%N, 0%N), []).
Proof. vm_compute. reflexivity. Qed.
Example plain_decoder_legacy_refuted :
  ds_sig (dec_sketch_into wxL fresh (serialize ex_stats)) = inr (Some EUnknownFlag)
  /\ content_sig (ref_decode (serialize ex_stats)) =
     Some ([(3%Z, 1%Q); (5%Z, 2%Q)], [], 2%Q, Some (0%N, 4607272490792564818%N, 0%N),
           ([4613937818241073152%N], [4613937818241073152%N], [], [])).
Proof. vm_compute. split; reflexivity. Qed.

(* DDSketch.Encode then DecodeDDSketch, sparse stores *)
Definition ex_sketch : sketch :=
  {| sk_map := {| mk_kind := 0; mk_gamma := f_gamma; mk_off := f_0 |};
     sk_pos := SS [(3%Z, w1); (5%Z, wadd w1 w1)]; sk_neg := SS [((-7)%Z, w1)]; sk_zero := wadd w1 w1; sk_stats := None |}.
Example C07_ex_encode : option_map (map block_sig) (ref_parse (snd (enc_sketch ex_sketch false))) =
  Some (map block_sig [BZeroCount f_2; BMapping 0 f_gamma f_0;
                       BStore false (IndexDeltasAndCounts [(3%Z, f_1); (2%Z, f_2)]);
                       BStore true (IndexDeltasAndCounts [((-7)%Z, f_1)])]).
Proof. vm_compute. reflexivity. Qed.
Example C07_ex_roundtrip : ds_sig (dec_sketch_into wxT fresh (snd (enc_sketch ex_sketch false))) =
  inl ([(3%Z, 1%Q); (5%Z, 2%Q)], [((-7)%Z, 1%Q)], 2%Q, Some (0%N, 4607272490792564818%N, 0%N), []).
Proof. vm_compute. reflexivity. Qed.

(* DenseStore.Encode: a window [10, 14] with cells 1 0 2 0 1, offset 8 *)
Definition ex_dense : dense :=
  {| Dense.bins := [w0; w0; w1; w0; wadd w1 w1; w0; w1; w0]; count := wadd (wadd w1 w1) (wadd w1 w1); offset := 8%Z;
     minI := 10%Z; maxI := 14%Z; lim := Exact; collapsed := false |}.
Example C07_ex_dense : content_sig (ref_decode (enc_dense ex_dense ft_positive)) =
  Some ([(10%Z, 1%Q); (12%Z, 2%Q); (14%Z, 1%Q)], [], 0%Q, None, ([], [], [], []))
  /\ option_map (map block_sig) (ref_parse (enc_dense ex_dense ft_positive))
     = Some (map block_sig [BStore false (IndexDeltasAndCounts [(10%Z, f_1); (2%Z, f_2); (2%Z, f_1)])]).
Proof. vm_compute. split; reflexivity. Qed.
(* no empty cell: the contiguous layout is the shorter one *)
Definition ex_dense2 : dense :=
  {| Dense.bins := [w0; w0; w1; wadd w1 w1; w1; w0]; count := wadd (wadd w1 w1) (wadd w1 w1); offset := 8%Z;
     minI := 10%Z; maxI := 12%Z; lim := Exact; collapsed := false |}.
Example C07_ex_dense_contiguous : content_sig (ref_decode (enc_dense ex_dense2 ft_positive)) =
  Some ([(10%Z, 1%Q); (11%Z, 2%Q); (12%Z, 1%Q)], [], 0%Q, None, ([], [], [], []))
  /\ option_map (map block_sig) (ref_parse (enc_dense ex_dense2 ft_positive))
     = Some (map block_sig [BStore false (ContiguousCounts 10%Z 1%Z [f_1; f_2; f_1])]).
Proof. vm_compute. split; reflexivity. Qed.
