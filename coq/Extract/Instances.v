(* The executable instances the correspondence check runs: policies, rounding = binary64,
   sorting = merge sort, all repairs on. *)
From Coq Require Import Sorting.Mergesort Orders.
From SK Require Import Base.Prelude Base.F64 Spec.Bins Store.Any Stat.Summary Sketch.Sketch Wire.Wire Data.Dataset.
From SK Require Import Store.PaginatedLoops.
From SK Require Import Codec.Codec.
From SK Require Codec.Varfloat.

Module QcOrder <: TotalLeBool.
  Definition t := Qc.
  Definition leb := wleb.
  Theorem leb_total : forall a b, leb a b = true \/ leb b a = true.
  Proof.
    intros a b. unfold leb, wleb. destruct (Qccompare a b) eqn:E; auto.
    right. destruct (Qccompare b a) eqn:E2; auto.
    apply Qcgt_alt in E. apply Qcgt_alt in E2. exfalso.
    pose proof (Qclt_trans _ _ _ E E2) as H. apply Qclt_not_eq in H. now apply H.
  Qed.
End QcOrder.
Module QcSort := Sort QcOrder.

Definition x_fixes : fixes := {| fD4 := true; fD5 := true; fD7 := true |}.
Definition x_wfixes : wfixes := {| fD2 := true; fD3 := true |}.

Definition xk_add := sk_add x_fixes.
Definition xk_quantile := sk_quantile rnd64 x_fixes.
Definition xk_enc := enc_sketch.
Definition xk_dec_into := dec_sketch_into x_wfixes.

Definition xd_lower := d_lower QcSort.sort rnd64.
Definition xd_upper := d_upper QcSort.sort rnd64.
Definition xd_min := d_min QcSort.sort.
Definition xd_max := d_max QcSort.sort.

(* Layer A observers evaluated next to Layer B ones (lockstep sanity check in the driver) *)
Definition a_obs (b : bins) : W * bool * option Z * option Z := (total b, is_emptyb b, min_key b, max_key b).

(* loop-by-loop transcriptions of the paginated observers, run next to the scan-based ones *)
Definition xp_min_go := p_min_go.
Definition xp_max_go := p_max_go.
Definition xp_key_at_rank_go := p_key_at_rank_go ZSort.sort.
