(* further executable instances (kept apart from Instances.v so that adding one does not invalidate the caches of the
   theorem files that import it) *)
From SK Require Import Base.Prelude Base.F64 Sketch.Sketch Sketch.SketchBatch Extract.Instances.
(* GetValuesAtQuantiles of both variants: the batch loop over the executed single query *)
Definition xk_quantiles (mt : mtable) := quantiles_with (xk_quantile mt).
