From Coq Require Extraction ExtrOcamlBasic.
From SK Require Import Base.Prelude Base.F64 Spec.Bins Store.Any Stat.Summary Sketch.Sketch Wire.Wire Wire.Grammar Wire.GrammarRaw Wire.Proto Data.Dataset Data.DatasetSum Wire.ProtoEdit Wire.ProtoB Sketch.SketchSum Mapping.Glue Extract.Instances Extract.Instances2 Sketch.ChangeMappingG.
From SK Require Import Codec.Codec.
From SK Require Codec.Varfloat.
Extraction Language OCaml.
Set Extraction KeepSingleton.
Extraction "model.ml"
  (* numbers *) Q2Qc Qcplus Qcmult Qcopp Qccompare w_of_Z wrap_i64
  (* floats *) f64_of_bits bits_of_f64 f2v f2q q2f v2f rnd64 exactb fadd fsub fmul fdiv fneg flt fle feq f_is_nan
  (* codec *) enc_uv dec_uv uv_size enc_sv dec_sv sv_size dec_sv32 enc_f64le_bits dec_f64le_bits
              Varfloat.enc_vf Varfloat.dec_vf Varfloat.vf_size Varfloat.enc_f64le Varfloat.dec_f64le dec_flag flag_type flag_sub
  (* spec *) badd0 bmerge bins_of_list bscale total min_key max_key key_at_rank clamp_low clamp_high norm sadd smerge_list is_emptyb a_obs wf
  (* stores *) st_new st_limit st_addw st_add st_foreach st_is_empty st_total st_min st_max st_key_at_rank st_merge st_clear st_copy
              st_reweight st_abs enc_store dec_store_all to_proto_d
  (* statistics *) su_new su_add su_merge su_get_sum su_reweight su_rescale su_from_data su_count su_sum su_min su_max
  (* grammar *) ref_decode ref_decode_raw ref_parse serialize sem
  (* sketch *) sk_new xk_add sk_count sk_is_empty xk_quantile sk_max sk_min sk_foreach sk_merge sk_clear sk_copy sk_reweight
              plain_is_empty plain_count map_equals within_tolerance sk_get_sum_f64 sk_from_data xk_quantiles
  (* wire *) xk_enc xk_dec_into ds_of_sketch ds_fresh sketch_of_ds enc_mapping dec_mapping
  (* mappings *) with_gamma with_accuracy gm_index gm_lower gm_value gm_accuracy
  (* paginated loops *) xp_min_go xp_max_go xp_key_at_rank_go
  (* protobuf *) parse_store parse_sketch parse_mapping stream_store stream_sketch stream_mapping to_proto_sparse to_proto_dense pb_of_dense_proto pb_map_view store_content pb_sketch_scale st_to_proto st_merge_with_proto_go sk_to_proto sk_from_proto
  (* change of mapping, float level (C17 lockstep) *) cmf_sketch cmf_store cmf_shortcut go_max go_min
  (* dataset *) d_new d_add d_merge xd_lower xd_upper xd_min xd_max d_sum_exact xd_sum.
