#!/usr/bin/env python3
"""Replace the table of DESIGN.md section 14.5 with the output of tools/seeded_table.py."""
import subprocess, os
root = os.path.dirname(os.path.dirname(os.path.abspath(__file__)))
p = os.path.join(root, "DESIGN.md"); s = open(p).read()
a = s.index("| seeded change | breaks |"); b = s.index("### 14.6 C17 tied to the code")
tab = subprocess.run(["python3", os.path.join(root, "tools", "seeded_table.py")], capture_output=True, text=True).stdout
tab = tab[tab.index("| seeded change | breaks |"):]
open(p, "w").write(s[:a] + tab.rstrip("\n") + "\n\n" + s[b:])
print("table rows:", tab.count("\n") - 2)
