#!/bin/sh
# tools/chk5.sh <ID> <n> <checks...> : run the quick checks against /tmp/mut/out/<ID>/m<n>.diff in an own worktree/work dir; result in /tmp/mut/chk/<ID>-m<n>.txt
export GOFLAGS=-mod=mod GOPROXY=off GOSUMDB=off GOTOOLCHAIN=local
id=$1; n=$2; shift; shift
mkdir -p /tmp/mut/chk
MUT_TAG=-$id-m$n$SFX python3 /verif/tools/mutant.py checkwt /tmp/mut/out/$id/m$n.diff "$@" > /tmp/mut/chk/$id-m$n$SFX.txt 2>&1
rm -rf /verif/.work-alt-$id-m$n$SFX
