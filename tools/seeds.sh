#!/bin/sh
# tools/seeds.sh "<ids>" "<seeds>": runs the quick tier of each property with each seed on the current tree; prints only alarms
cd "$(dirname "$0")/.."
for c in $1; do for sd in $2; do
  out=$(VERIF_SEED=$sd ./check $c quick 2>&1 | grep -v WARNING | tail -1)
  case "$out" in *" 0 violation(s)"*) ;; *) echo "ALARM $c seed=$sd: $out";; esac
done; echo "done $c"; done
