#!/usr/bin/env python3
"""Prints the markdown table of DESIGN.md section 14.5 from /verif/seeded/*/meta.json."""
import glob, json, os, re
ROOT = os.path.dirname(os.path.dirname(os.path.abspath(__file__)))
print("| seeded change | breaks | what it changes (first lines of its description) | checks run -> verdict | first clause reported |")
print("|---|---|---|---|---|")
for d in sorted(glob.glob(os.path.join(ROOT, "seeded", "*"))):
    try: m = json.load(open(os.path.join(d, "meta.json")))
    except Exception: continue
    desc = re.sub(r"\s+", " ", re.sub(r"[#*`|]", "", m.get("needs_to_manifest", "")))[:230]
    verdicts = ", ".join("%s: %s" % (k, "caught (%d)" % v["violations"] if v["exit"] else "missed") for k, v in sorted(m.get("checks", {}).items()))
    clause = ""
    for k, v in sorted(m.get("checks", {}).items()):
        if v["exit"] and v.get("clause"): clause = re.sub(r"[|`]", "", v["clause"])[:160]; break
    print("| %s | %s | %s | %s | %s |" % (os.path.basename(d), m.get("breaks_property"), desc, verdicts, clause))
