#!/usr/bin/env python3
"""tools/mutant.py confirm <dir> <n>  : in a scratch worktree, confirm mutant m<n> of <dir> compiles, passes the
                                        unedited suite, and that its demonstration fails with / passes without it.
   tools/mutant.py check <diff> <pid>...: apply the diff to /repo, run the quick checks, undo, print verdicts."""
import os, re, subprocess, sys, json, shutil
ENV = dict(os.environ, GOFLAGS="-mod=mod", GOPROXY="off", GOSUMDB="off", GOTOOLCHAIN="local")
PKGDIR = {"ddsketch": "ddsketch", "ddsketch_test": "ddsketch", "store": "ddsketch/store", "store_test": "ddsketch/store", "encoding": "ddsketch/encoding",
          "encoding_test": "ddsketch/encoding", "mapping": "ddsketch/mapping", "mapping_test": "ddsketch/mapping", "stat": "ddsketch/stat", "stat_test": "ddsketch/stat",
          "dataset": "dataset", "dataset_test": "dataset", "sketchpb": "ddsketch/pb/sketchpb"}
def sh(cmd, cwd=None, timeout=3600):
    p = subprocess.run(cmd, shell=True, cwd=cwd, env=ENV, capture_output=True, text=True, timeout=timeout); return p.returncode, p.stdout + p.stderr
def confirm(d, n, wt):
    diff = os.path.join(d, "m%s.diff" % n); demo = os.path.join(d, "m%s_demo_test.go" % n)
    if not os.path.exists(wt): sh("git -C /repo worktree add -q %s HEAD" % wt)
    sh("git checkout -q -- . && git clean -fdq", cwd=wt); sh("git checkout -q --detach $(git -C /repo rev-parse HEAD)", cwd=wt)
    pkg = re.search(r"^package\s+(\w+)", open(demo).read(), flags=re.M).group(1); sub = PKGDIR[pkg]
    dst = os.path.join(wt, sub, "zz_mutant_demo_test.go"); shutil.copy(demo, dst)
    tests = re.findall(r"^func (Test\w+)", open(demo).read(), flags=re.M)
    run = "go test -count=1 -run '^(%s)$' ./%s/" % ("|".join(tests), sub)
    rc0, out0 = sh(run, cwd=wt)
    rca, outa = sh("git apply %s" % diff, cwd=wt)
    if rca != 0: return {"ok": False, "why": "patch does not apply: " + outa[-300:]}
    rcb, outb = sh("go build ./... && go vet ./... 2>&1 | tail -3", cwd=wt)
    rc1, out1 = sh(run, cwd=wt)
    os.remove(dst)
    rcs, outs = sh("go test -count=1 -timeout 90m ./... 2>&1 | tail -15", cwd=wt, timeout=6000)
    suite_ok = "FAIL" not in outs and rcs == 0
    sh("git checkout -q -- . && git clean -fdq", cwd=wt)
    return {"ok": rc0 == 0 and rc1 != 0 and suite_ok and rcb == 0, "demo_passes_without": rc0 == 0, "demo_fails_with": rc1 != 0, "builds": rcb == 0, "suite_passes_with": suite_ok,
            "demo_cmd": run, "suite_tail": outs[-600:], "demo_fail_tail": out1[-500:]}
def check(diff, pids):
    rc, out = sh("git -C /repo status --porcelain")
    if out.strip(): print("refusing: /repo is not clean"); return
    rc, out = sh("git -C /repo apply %s" % diff)
    res = {}
    try:
        if rc != 0: print("patch does not apply to /repo:", out[-300:]); return
        for pid in pids:
            rc, out = sh("./check %s quick" % pid, cwd="/verif", timeout=3000)
            v = [l for l in out.splitlines() if l.startswith("VIOLATION") or l.startswith("KNOWN-FINDING")]
            res[pid] = {"exit": rc, "violations": len(v), "first": v[:2], "tail": out.strip().splitlines()[-1] if out.strip() else ""}
            detail = ""
            if v:
                m = re.search(r"replay=(\S+)", v[0])
                if m and os.path.exists(m.group(1)):
                    try: detail = json.load(open(m.group(1))).get("clause", "")[:300]
                    except Exception: pass
            res[pid]["clause"] = detail
            print(pid, "exit", rc, "violations", len(v), "|", detail[:200])
    finally:
        sh("git -C /repo checkout -- .")
    return res
def checkwt(diff, pids, wt=None):
    """Same verdicts without touching /repo: the diff is applied in a scratch worktree and the checks are pointed at it (VERIF_REPO);
    work files and evidence of such a run go to /verif/.work-alt, never to /verif/evidence."""
    tag = os.environ.get("MUT_TAG", "")          # several of these can run side by side, each with its own worktree and work directory
    wt = wt or "/tmp/mutchk" + tag
    sh("git -C /repo worktree remove --force %s" % wt); sh("git -C /repo worktree add -q --detach %s HEAD" % wt)
    res = {}
    try:
        rc, out = sh("git apply %s" % diff, cwd=wt)
        if rc != 0: print("patch does not apply:", out[-300:]); return
        env = dict(ENV, VERIF_REPO=wt, VERIF_WORK=".work-alt" + tag)
        for pid in pids:
            p = subprocess.run("./check %s quick" % pid, shell=True, cwd="/verif", env=env, capture_output=True, text=True, timeout=3000); rc, out = p.returncode, p.stdout + p.stderr
            v = [l for l in out.splitlines() if l.startswith("VIOLATION") or l.startswith("KNOWN-FINDING")]
            res[pid] = {"exit": rc, "violations": len(v), "first": v[:2], "tail": out.strip().splitlines()[-1] if out.strip() else ""}
            detail = ""
            if v:
                m = re.search(r"replay=(\S+)", v[0])
                if m and os.path.exists(m.group(1)):
                    try: detail = json.load(open(m.group(1))).get("clause", "")[:300]
                    except Exception: pass
            res[pid]["clause"] = detail
            print(pid, "exit", rc, "violations", len(v), "|", detail[:200])
    finally:
        sh("git -C /repo worktree remove --force %s" % wt)
    return res
if __name__ == "__main__":
    if sys.argv[1] == "checkwt":
        r = checkwt(sys.argv[2], sys.argv[3:]); print(json.dumps(r, indent=1) if r else ""); sys.exit(0)
    if sys.argv[1] == "confirm":
        r = confirm(sys.argv[2], sys.argv[3], sys.argv[4] if len(sys.argv) > 4 else "/tmp/mutv"); print(json.dumps(r, indent=1))
    else:
        r = check(sys.argv[2], sys.argv[3:]); print(json.dumps(r, indent=1) if r else "")
