#!/usr/bin/env python3
"""tools/process_mutants.py <dir> <PID> [extra check ids...]: confirm every m<n>.diff of <dir> in a scratch worktree,
run the quick checks against it (applied to /repo, undone straight afterwards), and file it under /verif/seeded/."""
import json, os, shutil, sys, glob, re
sys.path.insert(0, os.path.dirname(os.path.abspath(__file__)))
import mutant
d, pid, extra = sys.argv[1], sys.argv[2], sys.argv[3:]
for diff in sorted(glob.glob(os.path.join(d, "m*.diff"))):
    n = re.search(r"m(\d+)\.diff", diff).group(1)
    name = "%s-m%s" % (os.path.basename(d.rstrip("/")), n)
    out = os.path.join("/verif/seeded", name)
    if os.path.exists(os.path.join(out, "meta.json")) and "--force" not in sys.argv: print(name, "already filed"); continue
    if not os.path.exists(os.path.join(d, "m%s_demo_test.go" % n)): print(name, "no demo yet"); continue
    conf = mutant.confirm(d, n, "/tmp/mutv-" + os.path.basename(d.rstrip("/")))
    print(name, "confirmed" if conf["ok"] else "NOT CONFIRMED", {k: v for k, v in conf.items() if k in ("demo_passes_without", "demo_fails_with", "builds", "suite_passes_with")})
    res = mutant.check(diff, [pid] + [x for x in extra if not x.startswith("--")]) if conf["ok"] else {}
    if conf["ok"]:
        os.makedirs(out, exist_ok=True)
        shutil.copy(diff, os.path.join(out, "patch.diff")); shutil.copy(os.path.join(d, "m%s_demo_test.go" % n), os.path.join(out, "demo_test.go"))
        readme = os.path.join(d, "m%s_README.md" % n)
        json.dump({"breaks_property": pid, "needs_to_manifest": (open(readme).read()[:1500] if os.path.exists(readme) else ""),
                   "confirmed": {k: conf[k] for k in ("demo_passes_without", "demo_fails_with", "builds", "suite_passes_with", "demo_cmd")},
                   "what_was_run": "tools/mutant.py confirm (scratch worktree: go build, go vet, full go test ./..., demonstration with and without the patch); tools/mutant.py check (patch applied to /repo, ./check <id> quick, patch undone)",
                   "checks": {k: {"exit": v["exit"], "violations": v["violations"], "clause": v.get("clause", "")} for k, v in (res or {}).items()},
                   "caught_by": [k for k, v in (res or {}).items() if v["exit"] != 0]}, open(os.path.join(out, "meta.json"), "w"), indent=1)
