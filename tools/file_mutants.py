#!/usr/bin/env python3
"""tools/file_mutants.py <ID>:<checks,comma> ...  — for every confirmed mutant m<n> of /tmp/mut/out/<ID> (confirmation result in
/tmp/mut/confirm/<ID>-m<n>.json), run the listed quick checks against it (patch applied to /repo and undone) and file it under /verif/seeded/."""
import json, os, shutil, sys, glob, re
sys.path.insert(0, os.path.dirname(os.path.abspath(__file__)))
import mutant
for arg in sys.argv[1:]:
    pid, checks = arg.split(":"); checks = checks.split(",")
    d = "/tmp/mut/out/" + pid
    for diff in sorted(glob.glob(os.path.join(d, "m*.diff"))):
        mm = re.search(r"/m(\d+)\.diff$", diff)
        if not mm: continue
        n = mm.group(1); name = "%s-m%s" % (pid, n)
        if os.environ.get("MUT_ONLY") and n not in os.environ["MUT_ONLY"].split(","): continue
        cf = "/tmp/mut/confirm/%s.json" % name
        if not os.path.exists(cf) or not open(cf).read().strip(): print(name, "not confirmed yet"); continue
        try: conf = json.loads(open(cf).read())
        except Exception as e: print(name, "confirmation unreadable", e); continue
        if not conf.get("ok"): print(name, "NOT CONFIRMED", {k: conf.get(k) for k in ("demo_passes_without", "demo_fails_with", "builds", "suite_passes_with", "why")}); continue
        res = mutant.checkwt(diff, checks) or {}
        out = os.path.join("/verif/seeded", name); os.makedirs(out, exist_ok=True)
        shutil.copy(diff, os.path.join(out, "patch.diff")); shutil.copy(os.path.join(d, "m%s_demo_test.go" % n), os.path.join(out, "demo_test.go"))
        readme = os.path.join(d, "m%s_README.md" % n)
        json.dump({"breaks_property": pid, "needs_to_manifest": (open(readme).read()[:1800] if os.path.exists(readme) else ""),
                   "confirmed": {k: conf[k] for k in ("demo_passes_without", "demo_fails_with", "builds", "suite_passes_with", "demo_cmd")},
                   "what_was_run": "tools/mutant.py confirm (own scratch worktree: go build, go vet, full `go test -count=1 ./...`, demonstration with and without the patch); tools/mutant.py checkwt (patch applied in a scratch worktree of /repo, VERIF_REPO=<worktree> ./check <id> quick for each listed check, worktree removed; equivalent to tools/mutant.py check, which applies the patch to /repo itself and undoes it)",
                   "checks": {k: {"exit": v["exit"], "violations": v["violations"], "clause": v.get("clause", "")} for k, v in res.items()},
                   "caught_by": [k for k, v in res.items() if v["exit"] != 0]}, open(os.path.join(out, "meta.json"), "w"), indent=1)
        print(name, "filed; caught by", [k for k, v in res.items() if v["exit"] != 0])
