#!/usr/bin/env python3
"""Regenerates /verif/MANIFEST.json from the table below; a property is claimed only when at least one of its
theorem files exists (otherwise it is listed under not_applicable with the reason 'theorems not yet in the tree')."""
import json, os, sys
ROOT = os.path.dirname(os.path.dirname(os.path.abspath(__file__))); sys.path.insert(0, ROOT)
from vlib import core

T = "machine-checked proof in Coq 8.16 (theorems over an executable Gallina model) + correspondence check model vs implementation + exact-rational oracle"
INFO = {
 "C01": ("sketch-level rank theorem (Props/Rank.v C01_*): for every input, q and monotone mapping the answer is repr of an order statistic at floor/ceil of q(n-1), accuracy from the mapping hypotheses; transported to the executed Layer B sketch (Props/Refine.v Rf_executable_quantile_*) and to binary64 rounding (Props/Instance.v I_C01_*, Props/Rounding.v); correspondence: implementation vs extracted sketch model, every Index/Value the implementation reports is compared bit for bit with the glue model of its mapping before use; oracle in exact rationals against the true order statistics",
         "partial w.r.t. the accuracy of the float64 evaluation of the mappings (libm: C03's gap)", "5/C01"),
 "C02": ("merge algebra on Layer A (Props/Sketch.v C02_*: merge trees = flat adds, comm/assoc, empty no-op, collapsing normal form), all 25 store-kind pairs refine it (Props/Refine.v Rf_st_merge*, Rf_sk_merge, Rf_sketch_history); correspondence + twin oracle (merged sketch observes exactly like the single sketch, argument unchanged after later writes)",
         "self-merge not claimed (outside the quantifier)", "5/C02"),
 "C03": ("real-analysis theorems for the three ideal mappings (Props/C03.v, 51 theorems: monotone, containment, bin ratio, alpha-accuracy, constructor consistency, int32) + bit-exact Flocq model of the float code (Mapping/Glue.v; Props/Glue.v float-level lemmas) compared on every mapping instruction with Go's math.* answered by the implementation's runtime + exact-rational oracle on the implementation at adversarial points (bin edges +-ulps, binade boundaries, range ends)",
         "partial: the accuracy of Go's math.Log/Exp/Exp2/Log2/Pow/Cbrt is validated (tolerance 1e-12), not proved", "5/C03"),
 "C04": ("refinement theorems dense (Props/C04dense.v), paginated (Props/C04pag.v; observers loop by loop Props/C04pagloops.v), sparse (Props/C04sparse.v) stores -> Layer A for every operation, observer and history, for every growth/compaction policy and sort; executable policies Props/Refine.v Rf_st_*; Layer A algebra (Props/LayerA.v); correspondence on random programs + independent python shadow",
         "Go maps/sort/append are modelled, not verified; Copy aliasing is decided by twins on the implementation only", "5/C04"),
 "C05": ("collapsing-store refinement (Props/C05.v, 44 theorems: invariant, adjust/extend, add, merge = stepwise clamp, observers, reweight, clear, bounds) and clamp algebra on Layer A (Props/LayerA.v A8_*); correspondence on programs with 12 bin limits incl. wide-into-empty merges; len(bins) <= N through the hook",
         "", "5/C05"),
 "C06": ("wire theorems (Props/Wire.v C06_*, Props/WireAny.v C06_any_*): serialisation is a homomorphism, decoding = merging for receivers of all five store kinds, concatenation = merge, every store kind's encoder emits the grammar and round-trips (paginated incl. compaction); correspondence incl. the documentation-only decoder reading every implementation encoding; implementation-side oracles (all target kinds, prefixes, concatenations, decode-into-non-empty)",
         "the sketch-level round-trip theorem covers the plain variant (exact-statistics blocks are run, and C10 checks them); weights must survive the +1/-1 transform", "5/C06"),
 "C07": ("grammar theorems (Props/Wire.v C07_*, Props/WireRaw.v, Props/WireAny.v C07_any_*): the documentation-only parser inverts serialisation for every well-formed stream; the implementation decoder model accepts the grammar into all five store kinds; every encoder emits the grammar; correspondence: implementation bytes read by ref_decode_raw, grammar streams from an independent python encoder decoded by the implementation into every store kind, empty and non-empty receivers",
         "flag constants are written down from the documentation, never derived from the source", "5/C07"),
 "C08": ("truncation theorems: every strict prefix of a primitive encoding is EOF (Props/C18.v), block truncation / unknown flags / mapping mismatch / missing mapping for receivers of any kind, decoder total on prefixes (Props/Wire.v C08_*, Props/WireAny.v C08_any_*); exhaustive cut enumeration of this run's encodings against the implementation and the decoder model",
         "streams announcing >= 2^63 bins are outside the property's enumerated faults", "5/C08"),
 "C09": ("protobuf model (Wire/Proto.v) with parse . stream = id and Layer A round-trip theorems (Props/Proto.v, 43); implementation-side oracles: streaming bytes unmarshal to the in-memory message, rebuild into every store kind and through FromProto / store.FromProto, mixed messages against an exact shadow",
         "google.golang.org/protobuf and the generated ddsketch.pb.go are trusted as reference reader", "5/C09"),
 "C10": ("exact-arithmetic theorems about the very Gallina text that also runs on Flocq binary64 (Props/C10.v, 39 theorems: compensation identity, count/sum/min/max over all histories, merge = union, reweight/rescale algebra, decode = merge, clamp); the Flocq instance is replayed bit for bit against the sketch getters and against stat.SummaryStatistics used directly (every method, incl. Reweight(0), negative and zero Rescale, infinities, NaN)",
         "partial: the float error bound of the compensated sum is validated ((5+2#scale+2#merge) 2^-53 sum|vw|), not proved", "5/C10"),
 "C11": ("weighted rank theorems (Props/Rank.v C11_*): exact arithmetic for arbitrary positive rational weights incl. W<1, rounded arithmetic for integer weights (Props/Instance.v I_C11_*); corollaries answer-is-absorbed / between min and max; counterexample showing the +-1 bound fails for an adversarial rounding; correspondence + exact oracle",
         "for fractional weights the theorem is in exact arithmetic (dyadic weights make float64 exact)", "5/C11"),
 "C12": ("coherence theorems on Layer A (Props/Sketch.v C12_*): count additive through collapsing, emptiness, iteration, monotone quantiles within [min,max], non-None answers under explicit rounding premises, instantiated at binary64 (Props/Instance.v I_C12_*); Props/Refine.v for the executed sketch; correspondence + oracles on branch-targeted data sets",
         "sum accuracy is validated only; premise rnd(count-1) < rnd(count) excludes totals >= 2^53 (outside every quantifier)", "5/C12"),
 "C13": ("decision-table theorems on the Flocq-level sketch model (Props/Sketch.v C13_*: add / quantile / merge / reweight refusals iff conditions, weight-0 adds are the identity, legacy refutations); Props/Refine.v no_panic/too_high/too_low; correspondence at boundary floats with full observation before/after each refused call, all constructors incl. the convenience ones, store-level refusals",
         "'state unchanged after a refused call' is by construction in a functional model; it is decided on the implementation by the bracketed observations", "5/C13"),
 "C14": ("purity theorems at store level (paginated reads_pure / foreach / compact / key_at_rank preserve abs, loop-level observers; dense and collapsing observers; dataset queries; Props/Refine.v reads_pure, quantile_pure, copy) + correspondence on interleavings of reads and copies",
         "independence of copies (aliasing) cannot be exhibited by a functional model: twins on the implementation only", "5/C14"),
 "C15": ("clear-like-new theorems (dense, collapsing, paginated, sparse stores; executed sketch Props/Refine.v Rf_*clear*) + correspondence with fresh twins over before/after history pairs, incl. decode targets and collapsing stores", "", "5/C15"),
 "C16": ("reweight algebra on Layer A (Props/Sketch.v C16_*) and store refinements (dense, collapsing, paginated reweight = bscale; Props/Refine.v); twin oracle reweight vs scaled adds", "", "5/C16"),
 "C17": ("ideal-arithmetic model of changeStoreMapping with conservation / sign / support theorems (Props/ChangeMapping.v) + exact-rational oracle on the implementation (weight drift, negative bins, overlap, identity, combined quantile accuracy, statistics)",
         "partial: combined quantile accuracy is validated only", "5/C17"),
 "C18": ("29 theorems over all 2^64 values / all byte lists (Props/C18.v) + correspondence incl. all byte strings of length <= 1 (quick) / 2 (thorough)", "NaN payloads are not modelled (signalling NaNs excluded from the varfloat comparison)", "5/C18"),
 "C19": ("separation of gamma over the reals (Props/C19real.v), Equals laws and binary round trip on Flocq floats (Props/C19.v, 25) + bit-exact glue model + implementation-side identity checks through every serialized form", "gamma through math.Pow is compared with the implementation's own field, not proved", "5/C19"),
 "C20": ("34 theorems over all histories (Props/C20.v; Props/Instance.v I_C20_*) + correspondence + exact oracle", "sum float error validated only", "5/C20"),
}
def main():
    checks, na = [], []
    for pid in sorted(INFO):
        text, note, ref = INFO[pid]
        have = any(os.path.exists(os.path.join(core.COQ, "Props", f)) for f, _ in core.PROPS.get(pid, []))
        if have:
            th, problems = core.proof_status(pid)
            have = bool(th) and not problems
            if problems: print(pid, "not claimed:", problems[:2])
        if not have:
            na.append({"property_id": pid, "reason": "theorem file for this property is not in the tree yet (proof in progress); the correspondence/oracle check exists (./check %s) but is not claimed without a theorem" % pid}); continue
        checks.append({"property_id": pid, "quick_cmd": "./check %s quick" % pid, "thorough_cmd": "./check %s thorough" % pid,
                       "evidence_file": "/verif/evidence/%s.json" % pid, "replay_cmd_template": "./check --replay {path}", "engine": "coq+vrun+vmodel",
                       "level_claimed": {"category": "proof", "text": text, "design_ref": "DESIGN.md section " + ref},
                       "level_note": ("Trusted base: Coq 8.16.1 kernel (vm_compute, no native_compute), axioms as printed per theorem in the evidence file (stdlib real-number axioms only, through Flocq/Reals), "
                                      "extraction with ExtrOcamlBasic only, OCaml driver, Go interpreter vrun built from /repo with -tags verif, python generators/oracles. " + (("Limits: " + note) if note else "")),
                       "technique": T})
    m = {"version": 1, "setup_cmd": "./setup.sh",
         "hooks": {"guard": "verif", "enable": "go build -tags verif (harness module: replace github.com/DataDog/sketches-go => /repo)",
                   "baseline_off_cmd": "cd /repo && go test -mod=mod -json -vet=off -count=1 -timeout 25m ./...", "source_commits": ["6c87dee"], "add_only": True},
         "engines": [{"name": "coq+vrun+vmodel", "path": "/verif/check", "serves_properties": [c["property_id"] for c in checks],
                      "kind_free_text": "Coq theorems (coq/), extracted OCaml model (model/vmodel), Go interpreter of op scripts (harness/ -> .work/vrun), python generators/oracles (vlib/)"}],
         "checks": checks, "notes": "VERIF_SEED and VERIF_TIER are honoured; quick tiers take 2-60 s each after setup.", "not_applicable": na}
    json.dump(m, open(os.path.join(ROOT, "MANIFEST.json"), "w"), indent=1)
    print("claimed:", [c["property_id"] for c in checks]); print("not claimed:", [x["property_id"] for x in na])
main()
