#!/bin/sh
# confirm every delivered mutant, at most 4 at a time, each in its own scratch worktree; results in /tmp/mut/confirm/<ID>-m<n>.json
mkdir -p /tmp/mut/confirm
for d in /tmp/mut/out/C*; do
  id=$(basename $d)
  for diff in $d/m*.diff; do
    [ -f "$diff" ] || continue
    n=$(basename $diff .diff | sed 's/m//')
    [ -f "$d/m${n}_demo_test.go" ] || continue
    [ -f "$d/m${n}_README.md" ] || continue
    [ -s /tmp/mut/confirm/$id-m$n.json ] && continue
    echo "$d $n $id"
  done
done | xargs -P 6 -L 1 sh -c 'python3 /verif/tools/mutant.py confirm $0 $1 /tmp/mutv-$2-$1 2>&1 | grep -v "^WARNING" > /tmp/mut/confirm/$2-m$1.json.tmp; mv /tmp/mut/confirm/$2-m$1.json.tmp /tmp/mut/confirm/$2-m$1.json; git -C /repo worktree remove --force /tmp/mutv-$2-$1 2>/dev/null; true'
